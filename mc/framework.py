"""
Common machinery for all checks: environment pinning, worker pool, failure
bookkeeping, known-findings matching, replay files and evidence files.

A check module (checks/cXX.py) exposes

    PROPERTY = "C01"
    def shards(tier, seed) -> list[dict]        # JSON-able shard descriptors
    def run_shard(shard) -> ShardResult dict    # executed in a worker process
    def replay(case) -> list[failure dict]      # single case, no explorer
    META = {...}                                # rule / assumptions / alphabet text

run_shard returns
    {"evals": int, "nontrivial": int, "failures": [ {key,msg,case} ... ],
     "samples": [...], "extra": {...counters to be summed...}}
"""
from __future__ import annotations

import hashlib
import json
import multiprocessing as mp
import os
import signal
import sys
import time
import traceback

ROOT = os.environ.get("VERIF_ROOT") or os.path.dirname(os.path.dirname(os.path.abspath(__file__)))
REPO = os.environ.get("VERIF_REPO", "/repo")   # the tree under test (override only for background runs on a snapshot)
NPROC = int(os.environ.get("VERIF_NPROC", "16"))


# --------------------------------------------------------------------------
# environment
# --------------------------------------------------------------------------
def source_hash() -> str:
    h = hashlib.sha256()
    d = os.path.join(REPO, "speckit")
    for fn in sorted(os.listdir(d)):
        if fn.endswith(".py"):
            with open(os.path.join(d, fn), "rb") as f:
                h.update(fn.encode())
                h.update(f.read())
    return h.hexdigest()[:16]


def pin_env(threads: str = "1") -> None:
    """Must run before numpy/numba/speckit are imported in this process."""
    os.environ["NUMBA_NUM_THREADS"] = threads
    os.environ.setdefault("NUMBA_THREADING_LAYER", "workqueue")
    for v in ("OMP_NUM_THREADS", "MKL_NUM_THREADS", "OPENBLAS_NUM_THREADS"):
        os.environ[v] = "1"
    os.environ["PYTHONHASHSEED"] = "0"
    os.environ["MPLBACKEND"] = "Agg"
    cache_root = os.path.join(ROOT, ".nbcache")
    sh = source_hash()
    cdir = os.path.join(cache_root, sh)
    os.makedirs(cdir, exist_ok=True)
    os.environ["NUMBA_CACHE_DIR"] = cdir
    # prune caches of other source versions (keep the 3 most recent)
    try:
        others = [
            os.path.join(cache_root, d) for d in os.listdir(cache_root) if d != sh
        ]
        others.sort(key=lambda p: os.path.getmtime(p), reverse=True)
        import shutil

        for p in others[2:]:
            shutil.rmtree(p, ignore_errors=True)
    except Exception:
        pass
    if REPO not in sys.path:
        sys.path.insert(0, REPO)
    if ROOT not in sys.path:
        sys.path.insert(0, ROOT)


# --------------------------------------------------------------------------
# failures
# --------------------------------------------------------------------------
def fail(key: str, msg: str, case: dict) -> dict:
    return {"key": key, "msg": msg, "case": case}


def jsonable(o):
    import numpy as np

    if isinstance(o, dict):
        return {str(k): jsonable(v) for k, v in o.items()}
    if isinstance(o, (list, tuple)):
        return [jsonable(v) for v in o]
    if isinstance(o, np.ndarray):
        if o.dtype.kind == "c":
            return {"__complex__": [[float(z.real), float(z.imag)] for z in o.ravel()],
                    "shape": list(o.shape)}
        return jsonable(o.tolist())
    if isinstance(o, (np.integer,)):
        return int(o)
    if isinstance(o, (np.floating,)):
        return jsonable(float(o))
    if isinstance(o, (np.bool_,)):
        return bool(o)
    if isinstance(o, complex):
        return {"__complex__": [o.real, o.imag]}
    if isinstance(o, float):
        if o != o:
            return "NaN"
        if o in (float("inf"), float("-inf")):
            return "Infinity" if o > 0 else "-Infinity"
        return o
    if isinstance(o, (int, str, bool)) or o is None:
        return o
    return repr(o)


class Timeout(Exception):
    pass


def _alarm(signum, frame):
    raise Timeout()


class time_limit:
    """Wall-clock guard turning a non-terminating call into an exception."""

    def __init__(self, seconds: int):
        self.seconds = int(seconds)

    def __enter__(self):
        self._old = signal.signal(signal.SIGALRM, _alarm)
        signal.alarm(self.seconds)

    def __exit__(self, *a):
        signal.alarm(0)
        signal.signal(signal.SIGALRM, self._old)
        return False


# --------------------------------------------------------------------------
# worker pool
# --------------------------------------------------------------------------
def _worker(args):
    modname, shard = args
    import importlib

    mod = importlib.import_module(modname)
    t0 = time.time()
    try:
        res = mod.run_shard(shard)
    except Exception as e:  # noqa: BLE001
        frames = traceback.extract_tb(e.__traceback__)
        lib = os.path.join(REPO, "speckit") + os.sep
        if frames and frames[-1].filename.startswith(lib):
            # the exception was raised by the library itself while the check was exercising it with admissible input:
            # that is an observation about the code under test, not a failure of the harness
            where = f"{os.path.basename(frames[-1].filename)}:{frames[-1].lineno} in {frames[-1].name}"
            res = {"evals": 1, "nontrivial": 0, "samples": [],
                   "failures": [fail(f"library-raised/{type(e).__name__}/{frames[-1].name}",
                                     f"the library raised {type(e).__name__}: {e} at {where} while shard {json.dumps(jsonable(shard))[:300]} was being checked",
                                     shard if isinstance(shard, dict) else {"shard": shard})]}
        else:
            res = {
                "evals": 0,
                "nontrivial": 0,
                "failures": [],
                "samples": [],
                "harness_error": traceback.format_exc(),
            }
    res.setdefault("extra", {})
    res["wall"] = time.time() - t0
    res["shard"] = shard
    return res


def _crash_result(shard, exitcode, dump):
    """Result for a shard whose worker process died (signal / hard exit).  If the innermost Python frame of the fault handler's
    dump is inside the library, the library crashed the interpreter while it was exercised with admissible input: a violation
    (with a replay that re-runs the shard in a child process).  Otherwise the harness is at fault."""
    import re

    frames = re.findall(r'File "([^"]+)", line (\d+) in (\S+)', dump or "")
    lib = os.path.join(REPO, "speckit") + os.sep
    sig = f"signal {-exitcode}" if isinstance(exitcode, int) and exitcode < 0 else f"exit code {exitcode}"
    base = {"evals": 1, "nontrivial": 0, "samples": [], "failures": [], "extra": {}, "wall": 0.0, "shard": shard}
    if frames and frames[0][0].startswith(lib):
        fn, ln, name = frames[0]
        chain = " <- ".join(f"{os.path.basename(f)}:{l} {n}" for f, l, n in frames[:4])
        base["failures"].append(fail(f"library-crash/{name}",
                                     f"the interpreter died ({sig}) inside the library at {os.path.basename(fn)}:{ln} in {name} ({chain}) while shard "
                                     f"{json.dumps(jsonable(shard))[:300]} was being checked",
                                     {"_shard": jsonable(shard)}))
    else:
        base["evals"] = 0
        base["harness_error"] = f"worker process died ({sig}) while running shard {json.dumps(jsonable(shard))[:300]}\n{(dump or '')[:2000]}"
    return base


def _worker_main(conn, modname, crashfile):
    import faulthandler

    cf = open(crashfile, "w")
    faulthandler.enable(file=cf, all_threads=False)
    while True:
        try:
            msg = conn.recv()
        except EOFError:
            break
        if msg is None:
            break
        idx, shard = msg
        cf.seek(0)
        cf.truncate()
        res = _worker((modname, shard))
        try:
            conn.send((idx, res))
        except Exception:  # noqa: BLE001  (unpicklable payload: report instead of dying)
            conn.send((idx, {"evals": 0, "nontrivial": 0, "failures": [], "samples": [], "extra": {}, "wall": res.get("wall", 0.0),
                             "shard": shard, "harness_error": "result of the shard could not be sent to the driver:\n" + traceback.format_exc()}))
    os._exit(0)


def run_in_child(modname: str, shard):
    """Run one shard in a forked child; returns the result dict (a crash result if the child died)."""
    for res in run_pool(modname, [shard], nproc=2, force_children=True):
        return res


def run_pool(modname: str, shards: list, nproc: int = NPROC, force_children: bool = False):
    """Run all shards in forked worker processes; yields results as they complete.  A worker that dies (segmentation fault in
    compiled code, os._exit, kill) is noticed: its shard is reported (see _crash_result) and a new worker takes over."""
    if not shards:
        return
    if (nproc <= 1 or len(shards) == 1) and not force_children:
        for s in shards:
            yield _worker((modname, s))
        return
    import tempfile
    from multiprocessing import connection as mpc

    ctx = mp.get_context("fork")
    tmpd = tempfile.mkdtemp(prefix="verif_pool_")
    todo = list(enumerate(shards))[::-1]
    workers = {}   # parent connection -> [process, index of the shard being run or None, crash file]
    nspawn = 0

    def spawn():
        nonlocal nspawn
        nspawn += 1
        pc, cc = ctx.Pipe()
        cfile = os.path.join(tmpd, f"w{nspawn}.txt")
        pr = ctx.Process(target=_worker_main, args=(cc, modname, cfile), daemon=True)
        pr.start()
        cc.close()
        workers[pc] = [pr, None, cfile]
        return pc

    def feed(pc):
        if todo:
            idx, sh = todo.pop()
            workers[pc][1] = idx
            pc.send((idx, sh))
        else:
            workers[pc][1] = None
            try:
                pc.send(None)
            except Exception:  # noqa: BLE001
                pass

    try:
        for _ in range(min(nproc, len(shards))):
            feed(spawn())
        outstanding = len(shards)
        while outstanding:
            busy = [pc for pc, w in workers.items() if w[1] is not None]
            if not busy:
                break
            for pc in mpc.wait(busy):
                pr, idx, cfile = workers[pc]
                try:
                    ridx, res = pc.recv()
                except (EOFError, ConnectionResetError, OSError):
                    pr.join(5)
                    try:
                        dump = open(cfile).read()
                    except OSError:
                        dump = ""
                    del workers[pc]
                    pc.close()
                    outstanding -= 1
                    yield _crash_result(shards[idx], pr.exitcode, dump)
                    if todo:
                        feed(spawn())
                    continue
                outstanding -= 1
                feed(pc)
                yield res
    finally:
        for pc, (pr, _, _) in list(workers.items()):
            try:
                pc.close()
            except Exception:  # noqa: BLE001
                pass
            pr.join(2)
            if pr.is_alive():
                pr.terminate()
        import shutil

        shutil.rmtree(tmpd, ignore_errors=True)


# --------------------------------------------------------------------------
# known findings
# --------------------------------------------------------------------------
def load_known(prop: str):
    p = os.path.join(ROOT, "known_findings.json")
    if not os.path.exists(p):
        return []
    with open(p) as f:
        data = json.load(f)
    return [e for e in data.get("findings", []) if e.get("property") == prop and e.get("status") == "known"]


def match_known(known, failure):
    import fnmatch

    for e in known:
        for pat in e.get("keys", []):
            if fnmatch.fnmatchcase(failure["key"], pat):
                return e
    return None


# --------------------------------------------------------------------------
# driver
# --------------------------------------------------------------------------
def write_replay(prop: str, failure: dict) -> str:
    d = os.path.join(ROOT, "replays", prop)
    os.makedirs(d, exist_ok=True)
    body = json.dumps(jsonable({"property": prop, **failure}), sort_keys=True, indent=1)
    name = hashlib.sha1(body.encode()).hexdigest()[:16] + ".json"
    path = os.path.join(d, name)
    with open(path, "w") as f:
        f.write(body)
    return path


def warm_cache() -> None:
    """Compile the kernels once, in one process, for the current sources, so that the (many) worker processes load them
    from the cache instead of all compiling and writing the cache at the same time."""
    cdir = os.environ.get("NUMBA_CACHE_DIR")
    if not cdir:
        return
    marker = os.path.join(cdir, ".warm")
    if os.path.exists(marker):
        return
    import subprocess

    try:
        subprocess.run([sys.executable, os.path.join(ROOT, "mc", "setup.py")], capture_output=True, timeout=900,
                       env=dict(os.environ, VERIF_ROOT=ROOT))
    except Exception:  # noqa: BLE001
        pass
    try:
        with open(marker, "w") as f:
            f.write("warmed\n")
    except OSError:
        pass


def drive(mod, tier: str, seed: int) -> int:
    prop = mod.PROPERTY
    t0 = time.time()
    warm_cache()
    if getattr(mod, "PREIMPORT", True):
        import speckit  # noqa: F401  (imported once here; forked workers inherit it)
    shards = mod.shards(tier, seed)
    evals = nontrivial = 0
    failures = []
    nfail_total = 0
    samples = []
    extra = {}
    harness_errors = []
    slowest = 0.0
    for res in run_pool(mod.__name__, shards):
        evals += res["evals"]
        nontrivial += res["nontrivial"]
        nfail_total += len(res["failures"])
        for fl in res["failures"]:
            if len(failures) < 400:
                failures.append(fl)
        if len(samples) < 6:
            samples.extend(res.get("samples", [])[: 6 - len(samples)])
        for k, v in res.get("extra", {}).items():
            if isinstance(v, (int, float)) and k.startswith("max_"):
                extra[k] = max(extra.get(k, v), v)
            elif isinstance(v, (int, float)) and k.startswith("min_"):
                extra[k] = min(extra.get(k, v), v)
            elif isinstance(v, (int, float)):
                extra[k] = extra.get(k, 0) + v
            elif isinstance(v, list):
                extra.setdefault(k, [])
                for item in v:
                    if item not in extra[k] and len(extra[k]) < 64:
                        extra[k].append(item)
            elif isinstance(v, dict):
                d = extra.setdefault(k, {})
                for kk, vv in v.items():
                    d[kk] = d.get(kk, 0) + vv
            else:
                extra[k] = v
        slowest = max(slowest, res["wall"])
        if os.environ.get("VERIF_PROFILE") and res["wall"] > float(os.environ["VERIF_PROFILE"]):
            print(f"  shard {res['wall']:.1f}s evals={res['evals']} {json.dumps(jsonable(res['shard']))[:200]}", flush=True)
        if res.get("harness_error"):
            harness_errors.append({"shard": res["shard"], "trace": res["harness_error"]})

    if hasattr(mod, "finalize"):
        more = mod.finalize(tier, seed, extra)
        if more:
            failures.extend(more.get("failures", []))
            nfail_total += len(more.get("failures", []))
            extra.update(more.get("extra", {}))

    known = load_known(prop)
    known_hit = {}
    viol = []
    for fl in failures:
        e = match_known(known, fl)
        if e is not None:
            known_hit.setdefault(e["id"], [e, 0])
            known_hit[e["id"]][1] += 1
        else:
            viol.append(fl)

    for eid, (e, n) in sorted(known_hit.items()):
        print(f"KNOWN-FINDING: property={prop} {e['what']} [{eid}; {n} case(s) this run]")

    # group violations by key so the output stays readable
    printed = 0
    seen_keys = set()
    replay_paths = []
    for fl in viol:
        kshort = fl["key"]
        if kshort in seen_keys:
            continue
        seen_keys.add(kshort)
        path = write_replay(prop, fl)
        replay_paths.append(path)
        if printed < 25:
            print(f"VIOLATION property={prop} replay={path}")
            print(f"  what: {fl['msg'][:400]}")
            printed += 1
    if len(seen_keys) > printed:
        print(f"  ... {len(seen_keys) - printed} further distinct violation keys (replays written)")

    wall = time.time() - t0
    meta = getattr(mod, "META", {})
    level = meta.get("level", "model_checking")
    cov = {
        "evaluations": int(evals),
        "distinct_nontrivial": int(nontrivial),
        "rule": meta.get("rule", ""),
        "samples": jsonable(samples) if samples else [],
        "exhaustive": bool(meta.get("exhaustive", True)),
        "shards": len(shards),
        "slowest_shard_s": round(slowest, 2),
    }
    for k in ("states", "transitions", "traces_validated_against_impl"):
        if k in extra:
            cov[k] = int(extra.pop(k))
    if "states" not in cov:
        # bounded-exhaustive input enumeration: every enumerated case is a state of the
        # bounded input space, every oracle evaluation on the implementation a transition
        cov["states"] = int(evals)
        cov["transitions"] = int(evals)
        cov["traces_validated_against_impl"] = int(evals)
    cov["bounds"] = meta.get("bounds", {}).get(tier, meta.get("bounds", {}))
    cov["counters"] = jsonable(extra)
    cov["known_findings_hit"] = {k: v[1] for k, v in known_hit.items()}
    ev = {
        "property_id": prop,
        "tier": tier,
        "seed": int(seed),
        "level": level,
        "coverage": cov,
        "assumptions": meta.get("assumptions", []),
        "wall_s": round(wall, 2),
        "violations": len(seen_keys),
        "source_hash": source_hash(),
    }
    evdir = os.environ.get("VERIF_EVIDENCE_DIR") or os.path.join(ROOT, "evidence")   # (scratch runs against snapshots write elsewhere)
    os.makedirs(evdir, exist_ok=True)
    with open(os.path.join(evdir, f"{prop}.json"), "w") as f:
        json.dump(ev, f, indent=1, sort_keys=True)
        f.write("\n")

    print(
        f"[{prop}] tier={tier} seed={seed} shards={len(shards)} evaluations={evals} "
        f"nontrivial={nontrivial} violations={len(seen_keys)} known={sum(v[1] for v in known_hit.values())} "
        f"wall={wall:.1f}s"
    )
    if harness_errors:
        for he in harness_errors[:5]:
            print(f"HARNESS-ERROR property={prop} shard={json.dumps(jsonable(he['shard']))[:300]}")
            print(he["trace"])
        return 2
    if evals == 0:
        print(f"HARNESS-ERROR property={prop}: nothing was evaluated")
        return 2
    return 1 if viol else 0


def drive_replay(mod, path: str) -> int:
    with open(path) as f:
        rec = json.load(f)
    case = rec["case"]
    if isinstance(case, dict) and "_shard" in case:
        # the recorded failure is a crash of the interpreter inside the library: re-run the shard in child processes
        r1 = run_in_child(mod.__name__, case["_shard"])["failures"]
        r2 = run_in_child(mod.__name__, case["_shard"])["failures"]
    else:
        r1 = mod.replay(case)
        r2 = mod.replay(case)
    k1 = sorted(x["key"] for x in r1)
    k2 = sorted(x["key"] for x in r2)
    if k1 != k2:
        # two replays in one process disagree: the behaviour depends on what ran before (itself a call-history dependence);
        # report the union of what the two runs observed
        print(f"note: the two replays in this process observed different things: {k1} vs {k2}")
        have = {x["key"] for x in r1}
        r1 = r1 + [x for x in r2 if x["key"] not in have]
    known = load_known(mod.PROPERTY)
    bad = [x for x in r1 if match_known(known, x) is None]
    for x in r1:
        print(("VIOLATION" if x in bad else "KNOWN-FINDING:") + f" property={mod.PROPERTY} replay={path}")
        print(f"  what: {x['msg'][:600]}")
    if not r1:
        print(f"replay {path}: property holds on this case")
    return 1 if bad else 0
