"""Helpers shared by the analyzer-level checks (C05-C09, C11, C13, C14, C20)."""
import logging

import numpy as np

from mc import api, records
from mc.ref import estimator as est
from mc.ref import windows as refwin

RAW = ("XX", "YY", "XY", "M2", "S12", "S2")
PLANF = ("f", "r", "b", "L", "K", "navg", "O")


def quiet():
    logging.disable(logging.CRITICAL)


# ---- window specifications ------------------------------------------------
# name -> (kwargs for SpectrumAnalyzer, reference builder L -> window)
def _custom_asym(L):
    return refwin.asym_custom(L)


def _custom_gap(L):
    return refwin.gapneg(L)


def win_spec(name):
    """Returns (analyzer kwargs, ref builder)."""
    from numpy import kaiser as np_kaiser
    from scipy.signal.windows import kaiser as sp_kaiser

    if name == "kaiser60":
        return {"win": "kaiser", "psll": 60}, lambda L: refwin.build("kaiser", L, 60.0)
    if name == "kaiser200":
        return {"win": "kaiser", "psll": 200}, lambda L: refwin.build("kaiser", L, 200.0)
    if name == "npkaiser":
        return {"win": np_kaiser, "psll": 120}, lambda L: refwin.build("kaiser", L, 120.0)
    if name == "spkaiser":
        return {"win": sp_kaiser, "psll": 90}, lambda L: refwin.build("kaiser", L, 90.0)
    if name == "hann":
        return {"win": "hann"}, lambda L: refwin.hann_sym(L)
    if name == "custom":
        return {"win": _custom_asym}, lambda L: refwin.asym_custom(L)
    if name == "customgap":
        return {"win": _custom_gap}, lambda L: refwin.gapneg(L)
    raise KeyError(name)


def make_analyzer(data, fs, **kw):
    from speckit.analysis import SpectrumAnalyzer

    return SpectrumAnalyzer(data, fs, **kw)


def data_for(mode, N, rx="id1", ry="id2", seed=0):
    x = records.get(rx, N, seed)
    if mode == "auto":
        return x, None
    return x, records.get(ry, N, seed)


def as_input(x, y):
    return x.copy() if y is None else np.stack([x, y]).copy()


# ---- reference per bin ------------------------------------------------------
def ref_bin(x, y, fs, f, L, D, winvec, order):
    w = 2.0 * np.pi * float(f) / float(fs)
    D = np.asarray(D, dtype=np.int64)
    ref = est.ref_stats(x, y, D, int(L), winvec, w, int(order))
    tol = est.tolerances(x, y, D, int(L), winvec, m2ref=ref[4])
    return ref, tol


def bin_mismatch(res_fields, j, ref, tol, auto):
    """Compare raw fields of result bin j with the reference 5-tuple."""
    XX, YY, XY, M2 = res_fields["XX"][j], res_fields["YY"][j], res_fields["XY"][j], res_fields["M2"][j]
    got = (float(XX), float(YY), float(np.real(XY)), float(np.imag(XY)), float(M2))
    bad = []
    names = ("XX", "YY", "XY.re", "XY.im", "M2")
    for n, g, r, t in zip(names, got, ref, tol):
        if not (abs(g - r) <= t):
            bad.append(n)
    return bad, got


def raw_fields(res):
    d = api.raw(res)
    return {k: np.asarray(d[k]) for k in ("XX", "YY", "XY", "M2", "S12", "S2") if k in d}


def plan_fields(obj):
    """Per-bin plan fields from a plan dict or a result."""
    d = obj if isinstance(obj, dict) else api.raw(obj)
    out = {k: np.asarray(d[k]) for k in PLANF}
    out["D"] = [np.asarray(v, dtype=np.int64) for v in d["D"]]
    return out
