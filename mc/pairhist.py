"""
Process-level call-history exploration (engine E2, depth 2).

A *state* is a Python process in which a sequence of library calls has been made.
From a pristine process (speckit imported, nothing called) every ordered pair
(A, B) of a fixed configuration set is executed:  fork -> run A -> fork -> run B,
and B's observable results are compared bitwise with the results B gives in a
process forked directly from the pristine one.  Any module-level state that leaks
from one call to the next (a cache keyed too coarsely, a mutated default, a buffer
reused across analyzers) makes some pair differ.  Forking gives an exact copy of the
process state, so the pairs are independent of each other.

The configuration set is 'one parameter varied at a time around a base', so for
every parameter P there are A, B that differ in P only - exactly the pairs a cache
key that omits P confuses.
"""
import hashlib
import json
import os
import pickle
import sys
import warnings

import numpy as np

BASE = dict(N=64, rec="id1", fs=2.0, win="kaiser", psll=200.0, olap=0.5, order=0, Jdes=12, Kdes=4, bmin=1.0, Lmin=1,
            scheduler="vectorized_ltf", backend="numba", band=None, mode="auto", force=False)
VARIATIONS = [
    ("fs", 1.0), ("fs", 250.0), ("psll", 80.0), ("win", "hann"), ("win", "callable_a"), ("win", "callable_b"), ("olap", 0.0),
    ("olap", "default"), ("order", -1), ("order", 1), ("order", 2), ("Jdes", 30), ("Kdes", 16), ("Kdes", 1), ("bmin", 2.0), ("Lmin", 8),
    ("scheduler", "ltf"), ("scheduler", "lpsd"), ("scheduler", "new_ltf"), ("backend", "numpy"), ("band", (0.2, 0.8)),
    ("mode", "cross"), ("N", 65), ("rec", "id3"),
]
FORCE_BASE = dict(BASE, N=400, Jdes=60, force=True, scheduler="ltf", win="hann")
FORCE_VARS = [("Kdes", 16), ("Kdes", 64), ("olap", 0.0), ("scheduler", "lpsd"), ("bmin", 2.0), ("Lmin", 4), ("fs", 10.0)]


def configs(force=True):
    out = [dict(BASE)]
    for k, v in VARIATIONS:
        c = dict(BASE)
        c[k] = v
        out.append(c)
    # two-parameter combinations that matter for window/plan caches
    out.append(dict(BASE, scheduler="ltf", psll=80.0))
    out.append(dict(BASE, scheduler="ltf", Kdes=16))
    out.append(dict(BASE, scheduler="ltf", fs=250.0))
    # a band-limited analysis followed by the unrestricted one with the same scheduler (a plan object shared between calls
    # and trimmed in place shows here)
    out.append(dict(BASE, scheduler="ltf", band=(0.2, 0.8)))
    out.append(dict(BASE, scheduler="new_ltf", band=(0.2, 0.8)))
    if not force:
        return out
    out.append(dict(FORCE_BASE))
    for k, v in FORCE_VARS:
        c = dict(FORCE_BASE)
        c[k] = v
        out.append(c)
    return out


def _win(c):
    from mc.ref import windows as refwin

    if c["win"] == "kaiser":
        return {"win": "kaiser", "psll": c["psll"]}
    if c["win"] == "hann":
        return {"win": "hann"}
    if c["win"] == "callable_a":
        return {"win": np.hanning}
    return {"win": np.blackman}


def _dig(*arrs):
    h = hashlib.sha1()
    for a in arrs:
        a = np.asarray(a)
        h.update(str(a.dtype).encode() + str(a.shape).encode() + np.ascontiguousarray(a).tobytes())
    return h.hexdigest()[:16]


def evaluate(c):
    """Observable results of one configuration: name -> digest (+ a few plain numbers for messages)."""
    import logging

    logging.disable(logging.CRITICAL)
    from mc import records
    from speckit import schedulers as S
    from speckit.analysis import SpectrumAnalyzer

    x = records.get(c["rec"], c["N"])
    data = x if c["mode"] == "auto" else np.stack([x, records.get("id2", c["N"])])
    kw = dict(olap=c["olap"], bmin=c["bmin"], Lmin=c["Lmin"], Jdes=c["Jdes"], Kdes=c["Kdes"], order=c["order"],
              scheduler=c["scheduler"], backend=c["backend"], band=c["band"], force_target_nf=c["force"], **_win(c))
    out = {}
    try:
        an = SpectrumAnalyzer(data.copy(), c["fs"], **kw)
        p = an.plan()
        out["plan"] = _dig(p["f"], p["r"], p["b"], p["L"], p["K"], p["navg"], p["O"], *[np.asarray(d) for d in p["D"]])
        out["nf"] = int(p["nf"])
        out["rL"] = float(np.max(np.abs(np.asarray(p["r"]) * np.asarray(p["L"]) - c["fs"])) / c["fs"])
        if c["force"]:
            return out
        fn = {"lpsd": S.lpsd_plan, "ltf": S.ltf_plan, "vectorized_ltf": S.vectorized_ltf_plan, "new_ltf": S.new_ltf_plan}[c["scheduler"]]
        olap = an.config.get("final_olap", c["olap"])
        q = fn(N=c["N"], fs=c["fs"], olap=olap, bmin=c["bmin"], Lmin=c["Lmin"], Jdes=c["Jdes"], Kdes=c["Kdes"])
        out["sched"] = _dig(q["f"], q["r"], q["b"], q["L"], q["K"], q["navg"], q["O"], *[np.asarray(d) for d in q["D"]])
        r = an.compute()
        from mc import api
        d = api.raw(r)
        out["raw"] = _dig(d["XX"], d["YY"], d["XY"], d["M2"], d["S12"], d["S2"])
        j = len(p["f"]) // 2
        sb = an.compute_single_bin(float(p["f"][j]), fres=float(p["r"][j]) * 1.03)
        sb = api.raw(sb)
        out["single"] = _dig(sb["XX"], sb["YY"], sb["XY"], sb["M2"], sb["S12"], sb["S2"], sb["L"], sb["K"], sb["D"][0])
        out["derived"] = _dig(r.Gxx, r.ENBW, r.Gxx_dev, *( [r.coh, r.Hxy, r.cs] if r.iscsd else [r.asd, r.ps]))
    except Exception as e:  # noqa: BLE001
        out["error"] = f"{type(e).__name__}: {e}"
    return out


def _fork_eval(fn):
    r, w = os.pipe()
    pid = os.fork()
    if pid == 0:
        os.close(r)
        try:
            res = fn()
        except BaseException as e:  # noqa: BLE001
            res = {"error": f"{type(e).__name__}: {e}"}
        with os.fdopen(w, "wb") as f:
            pickle.dump(res, f)
        os._exit(0)
    os.close(w)
    with os.fdopen(r, "rb") as f:
        data = f.read()
    os.waitpid(pid, 0)
    return pickle.loads(data)


def run_A(cfgs, a, depth3=False):
    """In a pristine process: baselines for every B, then history [A] followed by each B."""
    warnings.simplefilter("ignore")
    base = [_fork_eval(lambda c=c: evaluate(c)) for c in cfgs]

    def after_a():
        ra = evaluate(cfgs[a])
        outs = [_fork_eval(lambda c=c: evaluate(c)) for c in cfgs]
        # the same configuration again, in the same process (repetition), after all that
        again = evaluate(cfgs[a])
        return ra, outs, again

    ra, outs, again = _fork_eval(after_a)
    return {"base": base, "first": ra, "after": outs, "again": again}


def main():
    a = int(sys.argv[1])
    force = sys.argv[2] == "1"
    sys.path.insert(0, os.environ.get("VERIF_ROOT", "/verif"))
    from mc import framework as fw

    fw.pin_env("1")
    import speckit  # noqa: F401  (imported; no scheduler/analyzer/result code has run)
    # load the compiled kernels once (stateless machine code) so that every forked child does not reload them from the cache
    from mc import kern
    xw = np.linspace(0.0, 1.0, 16)
    for cross in (False, True):
        for order in (-1, 0, 1, 2):
            kern.get_kernel("numba", cross, order)(xw, xw[::-1].copy(), np.array([0, 4], dtype=np.int64), 8, np.ones(8), 0.7)

    res = run_A(configs(force), a)
    sys.stdout.write("\n" + json.dumps(res) + "\n")


if __name__ == "__main__":
    main()


# ---------------------------------------------------------------------------
# used by the check modules
# ---------------------------------------------------------------------------
def shards_for(prop, force=False):
    return [{"part": "pairs", "a": a, "prop": prop, "force": force} for a in range(len(configs(force)))]


def run_pair_shard(shard, fields):
    """fields: names of the observables the calling property is about."""
    import subprocess

    from mc import framework as fw

    env = dict(os.environ, NUMBA_NUM_THREADS="1", VERIF_ROOT=fw.ROOT)
    cmd = [sys.executable, "-W", "ignore", os.path.join(fw.ROOT, "mc", "pairhist.py"), str(shard["a"]), "1" if shard.get("force") else "0"]
    p = subprocess.run(cmd, capture_output=True, text=True, env=env, cwd=fw.ROOT, timeout=3600)
    if p.returncode != 0 and not p.stderr.strip():
        # died without a Python traceback (signal): not a verdict about the library - try once more
        p = subprocess.run(cmd, capture_output=True, text=True, env=env, cwd=fw.ROOT, timeout=3600)
    if p.returncode != 0:
        raise RuntimeError(f"pair-history worker failed (rc={p.returncode}): {p.stderr[-2000:]}")
    res = json.loads(p.stdout.splitlines()[-1])
    cfgs = configs(bool(shard.get("force")))
    a = shard["a"]
    out = {"evals": 0, "nontrivial": 0, "failures": [], "samples": [],
           "extra": {"pair_histories": 0}}
    seen = set()

    def diff(x, y):
        return [k for k in fields if x.get(k) != y.get(k)] + (["error"] if x.get("error") != y.get("error") else [])

    def describe(c):
        return {k: v for k, v in c.items() if BASE.get(k) != v or k in ("scheduler",)}

    # A itself must equal its own baseline (first call in a process forked from pristine)
    for label, got in (("first", res["first"]), ("again", res["again"])):
        out["evals"] += 1
        d = diff(got, res["base"][a])
        if d:
            key = f"pairs/{label}/{'+'.join(d)}"
            if key not in seen:
                seen.add(key)
                out["failures"].append(fw.fail(key, f"configuration {describe(cfgs[a])}: {label} evaluation differs from the pristine-process result in {d}: {got} vs {res['base'][a]}", dict(shard)))
    for b, got in enumerate(res["after"]):
        out["evals"] += 1
        out["nontrivial"] += 1
        d = diff(got, res["base"][b])
        if d:
            vary = sorted(k for k in cfgs[a] if cfgs[a][k] != cfgs[b][k])
            key = f"pairs/after/{'+'.join(d)}/differs-in={'+'.join(vary) or 'nothing'}"
            if key not in seen:
                seen.add(key)
                out["failures"].append(fw.fail(key, f"after a call with {describe(cfgs[a])}, the call with {describe(cfgs[b])} gives results that differ from what it gives in a fresh process, in {d}: {got} vs {res['base'][b]}", dict(shard)))
    n = len(cfgs)
    out["extra"].update({"pair_histories": n})
    out["samples"].append({"history": [describe(cfgs[a]), describe(cfgs[min(a + 1, n - 1)])]})
    return out
