"""Toy kernels for the explorer's self-test (never compiled; only their source is lifted)."""
import numpy as np


class _Fake:
    def __init__(self, f):
        self.py_func = f


def _prange(n):
    return range(n)


def _toy_steps_src(out, K, m):
    for j in _prange(K):
        for s in range(m):
            out[j * m + s] = float(j)
    return float(out.sum())


def _toy_hoisted_src(x, K):
    # scratch buffer hoisted out of the loop: iterations race on it
    scratch = np.zeros(1)
    res = np.zeros(K)
    for j in _prange(K):
        scratch[0] = x[j]
        res[j] = scratch[0] * 2.0
    return float(res[0]), float(res[1])


def _toy_private_src(x, K):
    res = np.zeros(K)
    for j in _prange(K):
        scratch = np.zeros(1)
        scratch[0] = x[j]
        res[j] = scratch[0] * 2.0
    return float(res[0]), float(res[1])


def _toy_reduction_src(x, K):
    acc = 0.0
    for j in _prange(K):
        acc += x[j]
    return (acc,)


toy_steps = _Fake(_toy_steps_src)
toy_hoisted = _Fake(_toy_hoisted_src)
toy_private = _Fake(_toy_private_src)
toy_reduction = _Fake(_toy_reduction_src)
