"""Access to SpecKit's per-bin kernels exactly as the analyzer dispatches them."""
import numpy as np


def get_kernel(backend: str, cross: bool, order: int):
    """Return f(x, y, starts, L, win, omega) -> 5-tuple using the real kernels.
    backend in {'numba','numpy','cuda'} ('cuda' only inside a CUDASIM process)."""
    from speckit import core

    sfx = {"numba": "", "numpy": "_np", "cuda": "_cuda"}[backend]
    if backend == "cuda":
        from speckit import core_cuda as src
    else:
        src = core
    kind = "win_only" if order == -1 else ("detrend0" if order == 0 else "poly")
    name = f"_stats_{kind}_{'csd' if cross else 'auto'}{sfx}"
    fn = getattr(src, name)

    if kind == "poly":
        qcache = {}

        def call(x, y, starts, L, win, omega, **kw):
            Q = qcache.get(L)
            if Q is None:
                Q = qcache[L] = core._build_Q(L, order)
            if cross:
                return tuple(float(v) for v in fn(x, y, starts, L, win, omega, Q, **kw))
            return tuple(float(v) for v in fn(x, starts, L, win, omega, Q, **kw))

    else:

        def call(x, y, starts, L, win, omega, **kw):
            if cross:
                return tuple(float(v) for v in fn(x, y, starts, L, win, omega, **kw))
            return tuple(float(v) for v in fn(x, starts, L, win, omega, **kw))

    call.__name__ = name
    return call


STAT = ("MXX", "MYY", "mu_r", "mu_i", "M2")


def compare(got, ref, tol):
    """Names of the statistics that differ by more than the derived tolerance."""
    bad = []
    for n, g, r, t in zip(STAT, got, ref, tol):
        if not (abs(g - r) <= t):  # catches NaN too
            bad.append(n)
    return bad


def nontrivial(ref, tol):
    """A case could have failed: some reference statistic is >> its tolerance."""
    return any(abs(r) > 1e3 * t for r, t in zip(ref, tol))


def omegas(L):
    """Analysis frequencies: DC, Nyquist, integer bins, fractional bin, near-edge."""
    ws = [0.0, np.pi, 2 * np.pi * 1 / L, 2 * np.pi * (L // 2) / L,
          2 * np.pi * 1.37 / L if L > 1 else 1.234, 0.1, np.pi - 0.1]
    out = []
    for w in ws:
        w = float(min(max(w, 0.0), np.pi))
        if not any(abs(w - o) < 1e-12 for o in out):
            out.append(w)
    return out
