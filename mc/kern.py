"""Access to SpecKit's per-bin kernels exactly as the analyzer dispatches them."""
import numpy as np


def get_kernel(backend: str, cross: bool, order: int):
    """Return f(x, y, starts, L, win, omega) -> 5-tuple using the real kernels.
    backend in {'numba','numpy','cuda'} ('cuda' only inside a CUDASIM process)."""
    from speckit import core

    sfx = {"numba": "", "numpy": "_np", "cuda": "_cuda"}[backend]
    if backend == "cuda":
        from speckit import core_cuda as src
    else:
        src = core
    kind = "win_only" if order == -1 else ("detrend0" if order == 0 else "poly")
    name = f"_stats_{kind}_{'csd' if cross else 'auto'}{sfx}"
    fn = getattr(src, name, None)
    if fn is None or (kind == "poly" and not hasattr(core, "_build_Q")):
        # the kernel is not available under its usual name (internal reorganisation): evaluate the same statistics
        # through the public API instead - a one-bin plan from a user-supplied scheduler and a user-supplied window
        return _public_path(backend, cross, order)

    if kind == "poly":
        qcache = {}

        def call(x, y, starts, L, win, omega, **kw):
            Q = qcache.get(L)
            if Q is None:
                Q = qcache[L] = core._build_Q(L, order)
            if cross:
                return tuple(float(v) for v in fn(x, y, starts, L, win, omega, Q, **kw))
            return tuple(float(v) for v in fn(x, starts, L, win, omega, Q, **kw))

    else:

        def call(x, y, starts, L, win, omega, **kw):
            if cross:
                return tuple(float(v) for v in fn(x, y, starts, L, win, omega, **kw))
            return tuple(float(v) for v in fn(x, starts, L, win, omega, **kw))

    call.__name__ = name
    return _guard_inputs(call, name)


MODIFIED = []   # (kernel name, which argument, description): calls after which an input array no longer had its bytes


def _guard_inputs(call, name):
    """A statistics kernel only reads its record(s), starts and window: note every call that changes one of them."""
    def guarded(x, y, starts, L, win, omega, **kw):
        arrs = [("x", x), ("y", y), ("starts", starts), ("window", win)]
        before = [a.tobytes() if isinstance(a, np.ndarray) else None for _, a in arrs]
        out = call(x, y, starts, L, win, omega, **kw)
        if len(MODIFIED) < 8:
            for (nm, a), b in zip(arrs, before):
                if b is not None and a.tobytes() != b:
                    MODIFIED.append((name, nm, f"L={L} starts={np.asarray(starts).tolist()[:6]} omega={float(omega)!r}"))
        return out

    guarded.__name__ = name
    return guarded


STAT = ("MXX", "MYY", "mu_r", "mu_i", "M2")


def compare(got, ref, tol):
    """Names of the statistics that differ by more than the derived tolerance."""
    bad = []
    for n, g, r, t in zip(STAT, got, ref, tol):
        if not (abs(g - r) <= t):  # catches NaN too
            bad.append(n)
    return bad


def nontrivial(ref, tol):
    """A case could have failed: some reference statistic is >> its tolerance."""
    return any(abs(r) > 1e3 * t for r, t in zip(ref, tol))


def omegas(L):
    """Analysis frequencies: DC, Nyquist, integer bins, fractional bin, near-edge, and three with |sin w| < 1e-4."""
    ws = [0.0, np.pi, 2 * np.pi * 1 / L, 2 * np.pi * (L // 2) / L,
          2 * np.pi * 1.37 / L if L > 1 else 1.234, 0.1, np.pi - 0.1,
          # far below the first bin and just under Nyquist (|sin w| tiny): long-record territory, reachable at kernel level for any L
          3e-5, np.pi - 3e-5, 1e-8]
    out = []
    for w in ws:
        w = float(min(max(w, 0.0), np.pi))
        if not any(abs(w - o) < 1e-12 for o in out):
            out.append(w)
    return out


def _public_path(backend, cross, order):
    from speckit.analysis import SpectrumAnalyzer

    def call(x, y, starts, L, win, omega, **kw):
        fs = 1.0
        f = float(omega) / (2 * np.pi) * fs
        starts = np.asarray(starts, dtype=np.int64)
        w_ = np.asarray(win, dtype=np.float64)

        def plan_fn(**k):
            return {"f": np.array([f]), "r": np.array([fs / L]), "b": np.array([f * L / fs]), "L": np.array([L]), "K": np.array([starts.size]),
                    "navg": np.array([starts.size]), "D": [starts.copy()], "O": np.zeros(1), "nf": 1}

        data = np.asarray(x, dtype=np.float64) if not cross else np.stack([x, y])
        r = SpectrumAnalyzer(data, fs, win=lambda n: w_.copy(), order=order, olap=0.0, scheduler=plan_fn, backend=backend).compute()
        XY = complex(np.asarray(r.XY)[0])
        return (float(r.XX[0]), float(r.YY[0]) if cross else float(r.XX[0]), XY.real, XY.imag if cross else 0.0, float(r.M2[0]))

    call.__name__ = f"public_path_{backend}_{'csd' if cross else 'auto'}_{order}"
    return call
