"""Access to results/analyzers through their PUBLIC surface only, so that the checks do not depend on how the
library stores things internally (private attribute names may change in a correct refactoring)."""
import numpy as np

RAW_NAMES = ("f", "r", "b", "L", "K", "navg", "D", "O", "XX", "YY", "XY", "S12", "S2", "M2", "compute_t", "i")


class RawView:
    """Mapping-like read access to the raw per-bin fields of a SpectrumResult via getattr()."""

    def __init__(self, res):
        self._res = res

    def __getitem__(self, k):
        return getattr(self._res, k)

    def __contains__(self, k):
        try:
            getattr(self._res, k)
            return True
        except AttributeError:
            return False

    def get(self, k, default=None):
        try:
            return getattr(self._res, k)
        except AttributeError:
            return default

    def items(self):
        for k in RAW_NAMES:
            if k in self:
                yield k, self[k]

    def keys(self):
        return [k for k, _ in self.items()]


def raw(res):
    return RawView(res)


def raw_dict(res):
    """Plain dict of the raw per-bin fields (copies)."""
    out = {}
    for k, v in RawView(res).items():
        if k == "D":
            out[k] = [np.array(d, dtype=np.int64, copy=True) for d in v]
        else:
            out[k] = np.array(v, copy=True)
    return out


def flatten_state(obj, depth=0, prefix=""):
    """path -> value for every ndarray / scalar reachable through vars() and dicts/lists (used for generic
    'what was cached before is unchanged afterwards' checks)."""
    out = {}
    if depth > 4:
        return out
    items = None
    if isinstance(obj, dict):
        items = obj.items()
    elif hasattr(obj, "__dict__") and not callable(obj):
        items = vars(obj).items()
    if items is None:
        return out
    for k, v in items:
        p = f"{prefix}/{k}"
        if isinstance(v, np.ndarray) or v is None or isinstance(v, (int, float, complex, str, bool, np.generic)):
            out[p] = v
        elif isinstance(v, (dict,)) or (hasattr(v, "__dict__") and not callable(v) and not isinstance(v, type)):
            out.update(flatten_state(v, depth + 1, p))
        elif isinstance(v, (list, tuple)) and len(v) < 5000 and all(isinstance(e, np.ndarray) for e in v):
            for i, e in enumerate(v):
                out[f"{p}[{i}]"] = e
    return out
