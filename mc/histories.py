"""
Engine E2: explicit-state exploration of operation histories on real objects.

A state is the history (tuple of operations) that reaches it; every transition
replays the history on a *fresh real object* and applies one more operation;
states are deduplicated by a canonical hash of the object's complete mutable
state, invariants are evaluated on every transition, the search is breadth first
so the first counter-example is a shortest one.
"""
import collections
import hashlib
import json

import numpy as np


def _dump(o, h, depth=0):
    """Feed a canonical byte representation of `o` into hash h (recursive over the
    attributes of plain objects; ndarrays by dtype/shape/bytes; RNGs by state)."""
    if depth > 8:
        h.update(b"<deep>")
        return
    if o is None or isinstance(o, (bool, int, str)):
        h.update(repr(o).encode())
    elif isinstance(o, float):
        h.update(np.float64(o).tobytes())
    elif isinstance(o, complex):
        h.update(np.complex128(o).tobytes())
    elif isinstance(o, np.generic):
        h.update(str(o.dtype).encode() + o.tobytes())
    elif isinstance(o, np.ndarray):
        h.update(str(o.dtype).encode() + str(o.shape).encode())
        if o.dtype == object:
            for v in o.ravel():
                _dump(v, h, depth + 1)
        else:
            h.update(np.ascontiguousarray(o).tobytes())
    elif isinstance(o, np.random.Generator):
        h.update(json.dumps(o.bit_generator.state, sort_keys=True, default=lambda a: a.tolist() if hasattr(a, "tolist") else repr(a)).encode())
    elif isinstance(o, dict):
        for k in sorted(o, key=repr):
            h.update(repr(k).encode())
            _dump(o[k], h, depth + 1)
    elif isinstance(o, (list, tuple)):
        h.update(b"[")
        for v in o:
            _dump(v, h, depth + 1)
        h.update(b"]")
    elif callable(o) and not hasattr(o, "__dict__"):
        h.update(getattr(o, "__name__", "callable").encode())
    elif callable(o):
        h.update(getattr(o, "__qualname__", getattr(o, "__name__", "callable")).encode())
    elif hasattr(o, "__dict__"):
        h.update(type(o).__name__.encode())
        _dump(vars(o), h, depth + 1)
    else:
        h.update(repr(type(o)).encode())


def state_hash(obj, exclude=()):
    h = hashlib.sha1()
    d = {k: v for k, v in vars(obj).items() if k not in exclude} if hasattr(obj, "__dict__") else obj
    _dump(d, h)
    return h.hexdigest()


class Explorer:
    """
    make()                       -> fresh object
    apply(obj, op)               -> observation (the op's return value, made comparable)
    enabled(history)             -> iterable of ops enabled after `history`
    canon(obj, history)          -> hashable canonical state
    invariant(history, op, obj, obs, observations) -> list of (key, message)  (called after every transition)
    """

    def __init__(self, make, apply, enabled, canon, invariant, max_states=200000):
        self.make, self.apply, self.enabled, self.canon, self.invariant = make, apply, enabled, canon, invariant
        self.max_states = max_states
        self.states = 0
        self.transitions = 0
        self.replayed = 0
        self.max_depth = 0
        self.capped = False
        self.failures = []   # (key, message, history)
        self.samples = []

    def build(self, history):
        obj = self.make()
        obs = []
        for op in history:
            obs.append(self.apply(obj, op))
        self.replayed += 1
        return obj, obs

    def run(self):
        obj0, _ = self.build(())
        seen = {self.canon(obj0, ())}
        frontier = collections.deque([()])
        self.states = 1
        fail_keys = set()
        while frontier:
            hist = frontier.popleft()
            for op in self.enabled(hist):
                nh = hist + (op,)
                obj, obs = self.build(nh)
                self.transitions += 1
                self.max_depth = max(self.max_depth, len(nh))
                k = self.canon(obj, nh)  # before the invariant: invariants may read (and so cache) attributes
                for item in self.invariant(hist, op, obj, obs[-1], obs):
                    key, msg = item[0], item[1]
                    if key not in fail_keys:
                        fail_keys.add(key)
                        self.failures.append((key, msg, list(nh)) if len(item) < 3 else (key, msg, list(nh), item[2]))
                if k not in seen:
                    if len(seen) >= self.max_states:
                        self.capped = True
                        continue
                    seen.add(k)
                    self.states += 1
                    frontier.append(nh)
                    if len(self.samples) < 3 and len(nh) >= 2:
                        self.samples.append(list(nh))
        return self
