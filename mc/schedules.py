"""
Engine E3: stateless, preemption-bounded exploration of all interleavings of the
iterations of a `numba.prange` loop (or of the threads of a CUDA kernel), executed
on the kernel's *own source* as it is in the working tree.

Lifting (see DESIGN.md section 3.3):
  * `inspect.getsource(dispatcher.py_func)` -> ast
  * prange kernel:  statements before the loop = prologue (run once, sequentially),
    `for j in _prange(K): BODY` -> generator function __body(j); names assigned in BODY
    are locals of the generator (Numba privatises them the same way), names only read
    are shared; statements after the loop = epilogue.
  * CUDA kernel: the whole function is the thread body, `cuda.grid(1)` -> thread index,
    `cuda.local.array(n, ...)` -> private zeros(n).
  * every subscript load/store in BODY goes through __ld/__st; a store `X[i] op= v` is a
    load followed by a store (not atomic); calls to other jitted functions of the module
    are lifted the same way and inlined with `yield from`.
  * `name op= v` on a scalar bound before the loop is the reduction form Numba supports and
    is modelled as one atomic combine.

Scheduling points: accesses to *hot* arrays = arrays bound outside the loop that some
iteration writes and more than one iteration touches (found by a first in-order run).
Everything else is iteration-local and commutes with every step of every other thread.
"""
import ast
import inspect
import itertools
import math
import textwrap

import numpy as np


class LiftError(Exception):
    pass


# ---------------------------------------------------------------------------
# AST transformation
# ---------------------------------------------------------------------------
class _BodyTransformer(ast.NodeTransformer):
    def __init__(self, liftable, reductions, cuda=False):
        self.liftable = liftable      # names of module-level jitted helpers
        self.reductions = reductions  # names of outer scalars that are aug-assigned in the body
        self.cuda = cuda
        self.tmp = 0

    def _idx(self, node):
        return node.slice

    def visit_Subscript(self, node):
        self.generic_visit(node)
        if isinstance(node.ctx, ast.Load):
            call = ast.Call(func=ast.Name("__ld", ast.Load()), args=[node.value, self._idx(node)], keywords=[])
            return ast.copy_location(ast.YieldFrom(value=call), node)
        return node

    def visit_Assign(self, node):
        if len(node.targets) == 1 and isinstance(node.targets[0], ast.Subscript):
            tgt = node.targets[0]
            val = self.visit(node.value)
            arr = self.visit(tgt.value)
            idx = self.visit(tgt.slice)
            call = ast.Call(func=ast.Name("__st", ast.Load()), args=[arr, idx, val], keywords=[])
            return ast.copy_location(ast.Expr(ast.YieldFrom(value=call)), node)
        for t in node.targets:
            if isinstance(t, (ast.Tuple, ast.List)):
                for e in t.elts:
                    if isinstance(e, ast.Subscript):
                        raise LiftError("tuple assignment to subscripts is not supported by the lifter")
        self.generic_visit(node)
        return node

    def visit_AugAssign(self, node):
        if isinstance(node.target, ast.Subscript):
            tgt = node.target
            arr = self.visit(tgt.value)
            idx = self.visit(tgt.slice)
            val = self.visit(node.value)
            self.tmp += 1
            a, i = f"__a{self.tmp}", f"__i{self.tmp}"
            ld = ast.YieldFrom(ast.Call(ast.Name("__ld", ast.Load()), [ast.Name(a, ast.Load()), ast.Name(i, ast.Load())], []))
            st = ast.Expr(ast.YieldFrom(ast.Call(ast.Name("__st", ast.Load()),
                                                 [ast.Name(a, ast.Load()), ast.Name(i, ast.Load()),
                                                  ast.BinOp(ld, node.op, val)], [])))
            out = [ast.Assign([ast.Name(a, ast.Store())], arr), ast.Assign([ast.Name(i, ast.Store())], idx), st]
            return [ast.copy_location(ast.fix_missing_locations(s), node) for s in out]
        if isinstance(node.target, ast.Name) and node.target.id in self.reductions:
            val = self.visit(node.value)
            opname = type(node.op).__name__
            call = ast.Call(ast.Name("__red", ast.Load()), [ast.Constant(node.target.id), ast.Constant(opname), val], [])
            return ast.copy_location(ast.Expr(ast.YieldFrom(call)), node)
        self.generic_visit(node)
        return node

    def visit_Call(self, node):
        self.generic_visit(node)
        f = node.func
        if isinstance(f, ast.Name) and f.id in self.liftable:
            node.func = ast.Name("__lifted_" + f.id, ast.Load())
            if self.cuda:
                node.keywords = list(node.keywords) + [ast.keyword(k, ast.Name(k, ast.Load())) for k in ("__tid", "__bdim", "__gdim")]
            return ast.copy_location(ast.YieldFrom(value=node), node)
        if self.cuda and isinstance(f, ast.Attribute):
            dotted = _dotted(f)
            if dotted == "cuda.grid":
                return ast.copy_location(ast.Name("__tid", ast.Load()), node)
            if dotted == "cuda.gridsize":
                return ast.copy_location(ast.BinOp(ast.Name("__bdim", ast.Load()), ast.Mult(), ast.Name("__gdim", ast.Load())), node)
            if dotted == "cuda.local.array":
                return ast.copy_location(ast.Call(ast.Name("__localarray", ast.Load()), [node.args[0]], []), node)
            if dotted in ("cuda.syncthreads", "cuda.shared.array", "cuda.atomic.add", "cuda.syncwarp"):
                raise LiftError(f"{dotted} is not modelled by the lifter")
        return node

    def visit_Attribute(self, node):
        if self.cuda and isinstance(node.ctx, ast.Load):
            dotted = _dotted(node)
            repl = {"cuda.threadIdx.x": ast.BinOp(ast.Name("__tid", ast.Load()), ast.Mod(), ast.Name("__bdim", ast.Load())),
                    "cuda.blockIdx.x": ast.BinOp(ast.Name("__tid", ast.Load()), ast.FloorDiv(), ast.Name("__bdim", ast.Load())),
                    "cuda.blockDim.x": ast.Name("__bdim", ast.Load()),
                    "cuda.gridDim.x": ast.Name("__gdim", ast.Load())}.get(dotted)
            if repl is not None:
                return ast.copy_location(repl, node)
        self.generic_visit(node)
        return node


def _dotted(node):
    parts = []
    while isinstance(node, ast.Attribute):
        parts.append(node.attr)
        node = node.value
    if isinstance(node, ast.Name):
        parts.append(node.id)
    return ".".join(reversed(parts))


def _assigned_names(stmts):
    names = set()
    for s in stmts:
        for n in ast.walk(s):
            if isinstance(n, ast.Name) and isinstance(n.ctx, ast.Store):
                names.add(n.id)
            elif isinstance(n, ast.arg):
                names.add(n.arg)
    return names


def _plain_and_aug(stmts):
    plain, aug = set(), set()
    for s in stmts:
        for n in ast.walk(s):
            if isinstance(n, ast.AugAssign) and isinstance(n.target, ast.Name):
                aug.add(n.target.id)
            elif isinstance(n, ast.Assign):
                for t in n.targets:
                    for m in ast.walk(t):
                        if isinstance(m, ast.Name) and isinstance(m.ctx, ast.Store):
                            plain.add(m.id)
            elif isinstance(n, (ast.For, ast.comprehension)):
                for m in ast.walk(n.target):
                    if isinstance(m, ast.Name):
                        plain.add(m.id)
    return plain, aug


def _func_ast(pyfunc):
    src = textwrap.dedent(inspect.getsource(pyfunc))
    mod = ast.parse(src)
    fdef = next(n for n in mod.body if isinstance(n, ast.FunctionDef))
    fdef.decorator_list = []
    fdef.returns = None
    for a in fdef.args.args + fdef.args.kwonlyargs + fdef.args.posonlyargs:
        a.annotation = None
    if fdef.body and isinstance(fdef.body[0], ast.Expr) and isinstance(getattr(fdef.body[0], "value", None), ast.Constant) \
            and isinstance(fdef.body[0].value.value, str):
        fdef.body = fdef.body[1:]
    return fdef


def _is_dispatcher(v):
    try:
        if isinstance(v, (type(np), type(None), int, float, str, dict, list, tuple)):
            return False
        return ("Dispatcher" in type(v).__name__ or type(v).__name__ == "_Fake") and callable(getattr(v, "py_func", None))
    except Exception:  # objects whose attribute lookup has side effects (e.g. the CUDA driver proxy)
        return False


# ---------------------------------------------------------------------------
# run-time support shared by all threads of one execution
# ---------------------------------------------------------------------------
class Runtime:
    def __init__(self):
        self.outer = {}        # id(array) -> label   (arrays bound outside the loop; kept alive in self.keep)
        self.keep = []
        self.hot = None        # set of labels; None = record-only mode (everything yields nothing)
        self.trace = []        # (thread, 'R'|'W', label, index) for outer arrays
        self.cur = None
        self.shared = None     # namespace holding reduction variables
        self.nred = 0

    def register(self, name, arr):
        if isinstance(arr, np.ndarray) and id(arr) not in self.outer:
            self.outer[id(arr)] = name
            self.keep.append(arr)

    def ld(self, arr, idx):
        lab = self.outer.get(id(arr)) if isinstance(arr, np.ndarray) else None
        if lab is not None:
            if self.hot is not None and lab in self.hot:
                yield ("R", lab, _key(idx))
            self.trace.append((self.cur, "R", lab, _key(idx)))
        val = arr[idx]
        if lab is not None and isinstance(val, np.ndarray) and id(val) not in self.outer:
            # a view (slice) of an array bound outside the loop: accesses through it are accesses to that array
            self.outer[id(val)] = lab
            self.keep.append(val)
        return val

    def st(self, arr, idx, val):
        lab = self.outer.get(id(arr)) if isinstance(arr, np.ndarray) else None
        if lab is not None:
            if self.hot is not None and lab in self.hot:
                yield ("W", lab, _key(idx))
            self.trace.append((self.cur, "W", lab, _key(idx)))
        arr[idx] = val
        return None

    def red(self, name, opname, val):
        yield ("RED", name, None)
        self.nred += 1
        cur = self.shared[name]
        self.shared[name] = _BINOPS[opname](cur, val)
        self.trace.append((self.cur, "RED", name, None))
        return None


_BINOPS = {"Add": lambda a, b: a + b, "Sub": lambda a, b: a - b, "Mult": lambda a, b: a * b,
           "Div": lambda a, b: a / b, "BitOr": lambda a, b: a | b, "BitAnd": lambda a, b: a & b}


def _key(idx):
    if isinstance(idx, tuple):
        return tuple(_key(i) for i in idx)
    if isinstance(idx, (int, np.integer)):
        return int(idx)
    if isinstance(idx, slice):
        return ("slice", idx.start, idx.stop, idx.step)
    return repr(idx)


# ---------------------------------------------------------------------------
# lifted kernels
# ---------------------------------------------------------------------------
class LiftedKernel:
    """prange kernel or CUDA kernel lifted from `dispatcher.py_func`."""

    def __init__(self, dispatcher, kind="prange"):
        self.kind = kind
        self.pyfunc = dispatcher.py_func
        self.name = self.pyfunc.__name__
        self.globals = dict(self.pyfunc.__globals__)
        if self.pyfunc.__closure__:
            for nm, cell in zip(self.pyfunc.__code__.co_freevars, self.pyfunc.__closure__):
                try:
                    self.globals[nm] = cell.cell_contents
                except ValueError:
                    pass
        self.fdef = _func_ast(self.pyfunc)
        self.argnames = [a.arg for a in self.fdef.args.args]
        self.liftable = {k for k, v in self.globals.items() if _is_dispatcher(v) and k != self.name}
        self.helper_code = {}
        if kind == "prange":
            self._split_prange()
        else:
            self._prep_cuda()

    # -- helpers lifted into generator functions -------------------------
    def _lift_helper_src(self, name):
        fdef = _func_ast(self.globals[name].py_func)
        tr = _BodyTransformer(self.liftable, set(), cuda=(self.kind == "cuda"))
        fdef = tr.visit(fdef)
        fdef.name = "__lifted_" + name
        if self.kind == "cuda":  # device functions see the same thread coordinates as the kernel that calls them
            fdef.args.kwonlyargs = list(fdef.args.kwonlyargs) + [ast.arg("__tid"), ast.arg("__bdim"), ast.arg("__gdim")]
            fdef.args.kw_defaults = list(fdef.args.kw_defaults) + [ast.Constant(0), ast.Constant(1), ast.Constant(1)]
        fdef.body.insert(0, ast.If(test=ast.Constant(False), body=[ast.Expr(ast.Yield(value=None))], orelse=[]))
        mod = ast.Module(body=[fdef], type_ignores=[])
        ast.fix_missing_locations(mod)
        return compile(mod, f"<lifted {name}>", "exec")

    def _split_prange(self):
        body = self.fdef.body
        loops = [i for i, s in enumerate(body) if isinstance(s, ast.For) and isinstance(s.iter, ast.Call)
                 and isinstance(s.iter.func, ast.Name) and s.iter.func.id in ("_prange", "prange")]
        if len(loops) != 1:
            raise LiftError(f"{self.name}: expected exactly one top-level prange loop, found {len(loops)}")
        li = loops[0]
        loop = body[li]
        if not isinstance(loop.target, ast.Name) or loop.orelse:
            raise LiftError(f"{self.name}: unsupported prange loop shape")
        self.pro, self.epi = body[:li], body[li + 1:]
        self.loopvar = loop.target.id
        self.range_args = loop.iter.args
        pro_names = _assigned_names(self.pro) | set(self.argnames)
        plain, aug = _plain_and_aug(loop.body)
        self.reductions = {n for n in aug if n in pro_names and n not in plain}
        bad = {n for n in aug if n in pro_names and n in plain}
        if bad:
            raise LiftError(f"{self.name}: outer scalar(s) {sorted(bad)} both assigned and aug-assigned in the prange body")
        tr = _BodyTransformer(self.liftable, self.reductions, cuda=False)
        new_body = []
        for s in loop.body:
            r = tr.visit(s)
            new_body.extend(r if isinstance(r, list) else [r])
        gen = ast.FunctionDef(name="__body", args=ast.arguments(posonlyargs=[], args=[ast.arg(self.loopvar)], kwonlyargs=[],
                                                                kw_defaults=[], defaults=[]),
                              body=[ast.If(test=ast.Constant(False), body=[ast.Expr(ast.Yield(value=None))], orelse=[])] + new_body,
                              decorator_list=[], type_params=[])
        mod = ast.Module(body=[gen], type_ignores=[])
        ast.fix_missing_locations(mod)
        self.body_code = compile(mod, f"<lifted body of {self.name}>", "exec")
        # prologue / epilogue as plain functions operating on a shared namespace
        pro = ast.FunctionDef(name="__prologue", args=self.fdef.args, body=self.pro + [ast.Return(ast.Call(ast.Name("locals", ast.Load()), [], []))],
                              decorator_list=[], type_params=[])
        mod = ast.Module(body=[pro], type_ignores=[])
        ast.fix_missing_locations(mod)
        self.pro_code = compile(mod, f"<prologue of {self.name}>", "exec")
        rng = ast.Expression(ast.Call(ast.Name("range", ast.Load()), self.range_args, []))
        ast.fix_missing_locations(rng)
        self.range_code = compile(rng, f"<range of {self.name}>", "eval")
        epi = ast.FunctionDef(name="__epilogue", args=ast.arguments(posonlyargs=[], args=[], kwonlyargs=[], kw_defaults=[], defaults=[]),
                              body=self.epi or [ast.Return(ast.Constant(None))], decorator_list=[], type_params=[])
        mod = ast.Module(body=[epi], type_ignores=[])
        ast.fix_missing_locations(mod)
        self.epi_code = compile(mod, f"<epilogue of {self.name}>", "exec")

    def _prep_cuda(self):
        tr = _BodyTransformer(self.liftable, set(), cuda=True)
        fdef = tr.visit(self.fdef)
        fdef.name = "__body"
        fdef.args.args = [ast.arg("__tid"), ast.arg("__bdim"), ast.arg("__gdim")] + fdef.args.args
        fdef.body.insert(0, ast.If(test=ast.Constant(False), body=[ast.Expr(ast.Yield(value=None))], orelse=[]))
        mod = ast.Module(body=[fdef], type_ignores=[])
        ast.fix_missing_locations(mod)
        self.body_code = compile(mod, f"<lifted cuda body of {self.name}>", "exec")

    # -- one execution under a schedule ---------------------------------------
    def _namespaces(self, rt):
        plain = dict(self.globals)
        for n in self.liftable:
            plain[n] = self.globals[n].py_func
        if "_prange" in plain:
            plain["_prange"] = range
        body_ns = dict(plain)
        body_ns.update({"__ld": rt.ld, "__st": rt.st, "__red": rt.red,
                        "__localarray": lambda n: np.zeros(int(n), dtype=np.float64)})
        for n in self.liftable:
            hp = self.globals[n].py_func
            if hp.__closure__:  # helpers produced by factories: their free variables
                for nm, cell in zip(hp.__code__.co_freevars, hp.__closure__):
                    try:
                        body_ns.setdefault(nm, cell.cell_contents)
                    except ValueError:
                        pass
            code = self.helper_code.get(n)
            if code is None:
                code = self.helper_code[n] = self._lift_helper_src(n)
            exec(code, body_ns)
        return plain, body_ns

    def start(self, args, nthreads=None, hot=None, launch=None, outputs=None):
        """Returns (rt, threads(list of generators), finish()) for one fresh execution."""
        rt = Runtime()
        rt.hot = hot
        args = [a.copy() if isinstance(a, np.ndarray) else a for a in args]
        plain, body_ns = self._namespaces(rt)
        if self.kind == "prange":
            exec(self.pro_code, plain)
            loc = plain["__prologue"](*args)
            for k, v in loc.items():
                rt.register(k, v)
            body_ns.update(loc)
            rt.shared = body_ns
            plain.update(loc)
            iters = list(eval(self.range_code, plain))
            exec(self.body_code, body_ns)
            threads = [body_ns["__body"](j) for j in iters]
            exec(self.epi_code, body_ns)

            def finish():
                # outcome of a run = the value returned by the kernel and the final contents of its array arguments
                # (a kernel may deliver its results through arrays handed in by the caller)
                return body_ns["__epilogue"](), tuple(np.array(a, copy=True) for a in args if isinstance(a, np.ndarray))
        else:
            for k, v in zip(self.argnames, args):
                rt.register(k, v)
            rt.shared = body_ns
            exec(self.body_code, body_ns)
            gdim, bdim = launch if launch else (1, nthreads)
            nthreads = gdim * bdim
            threads = [body_ns["__body"](j, bdim, gdim, *args) for j in range(nthreads)]
            outs = [args[i] for i in outputs] if outputs is not None else args[-4:]

            def finish():
                return tuple(np.array(o, copy=True) for o in outs), ()
        return rt, threads, finish


# ---------------------------------------------------------------------------
# explorer
# ---------------------------------------------------------------------------
class Execution:
    __slots__ = ("choices", "points", "result", "arrays", "trace", "writes")


def run_schedule(lk, args, prefix, nthreads=None, hot=None):
    """Replay `prefix` (list of choice indices), then always take choice 0."""
    rt, threads, finish = lk.start(args, nthreads, hot, getattr(lk, "launch", None), getattr(lk, "outputs", None))
    n = len(threads)
    pending = [None] * n     # the hot access each thread is poised at
    done = [False] * n
    # prime: run every thread up to its first scheduling point (private computation only)
    for t in range(n):
        rt.cur = t
        try:
            pending[t] = next(threads[t])
        except StopIteration:
            done[t] = True
    running = None
    points = []
    choices = []
    pre = 0
    step = 0
    while True:
        enabled = [t for t in range(n) if not done[t]]
        if not enabled:
            break
        still = running is not None and not done[running]
        if still:
            order = [running] + [t for t in enabled if t != running]
        else:
            order = enabled
        if step < len(prefix):
            c = prefix[step]
            if c >= len(order):
                raise RuntimeError(f"schedule replay diverged at step {step}: choice {c} of {len(order)} enabled")
        else:
            c = 0
        points.append((len(order), still, pre, sum(1 for q in choices if q)))
        choices.append(c)
        t = order[c]
        if still and t != running:
            pre += 1
        running = t
        rt.cur = t
        try:
            pending[t] = threads[t].send(None)
        except StopIteration:
            done[t] = True
        step += 1
    ex = Execution()
    ex.choices, ex.points, ex.trace = choices, points, rt.trace
    ex.result, ex.arrays = finish()
    return ex


def canon_outcome(ex):
    return canon_result(ex.result) + tuple(a.tobytes() for a in ex.arrays)


def canon_result(res):
    if res is None:
        return (b"none",)
    if not isinstance(res, (tuple, list)):
        res = (res,)
    if isinstance(res, tuple) and res and isinstance(res[0], np.ndarray):
        return tuple(a.tobytes() for a in res)
    return tuple(np.float64(v).tobytes() for v in res)


def explore(lk, args, bound, nthreads=None, max_exec=2_000_000, stop_on_diff=False, count="preemptions"):
    """Bounded DFS over schedules. bound=None: unbounded.
    count="preemptions": a switch away from a thread that could continue costs 1, the choice of the next thread after a
    thread has finished is free (classic context bounding; the number of free orderings grows like K!).
    count="deviations": every departure from the default choice (keep running / lowest id) costs 1 - use for many threads."""
    # pass 0: in-order execution in record mode -> hot arrays, races, reference outcome
    ex0 = run_schedule(lk, args, [], nthreads, hot=None)
    writers, touchers = {}, {}
    for t, kind, lab, idx in ex0.trace:
        touchers.setdefault(lab, set()).add(t)
        if kind in ("W", "RED"):
            writers.setdefault(lab, set()).add(t)
    hot = {lab for lab in writers if len(touchers[lab]) > 1}
    # conflicting access pairs: same location, different threads, at least one write
    locs = {}
    for t, kind, lab, idx in ex0.trace:
        locs.setdefault((lab, idx), []).append((t, kind))
    racy = sorted({(lab, idx) for (lab, idx), acc in locs.items()
                   if len({t for t, _ in acc}) > 1 and any(k != "R" for _, k in acc)}, key=repr)
    wcount = {}
    for t, kind, lab, idx in ex0.trace:
        if kind == "W":
            wcount[(lab, idx)] = wcount.get((lab, idx), 0) + 1
    ref = canon_outcome(ex0)
    outcomes = {ref: []}
    nexec = 0
    capped = False
    stack = [[]]
    maxpoints = 0
    while stack:
        prefix = stack.pop()
        x = run_schedule(lk, args, prefix, nthreads, hot=hot)
        nexec += 1
        maxpoints = max(maxpoints, len(x.points))
        key = canon_outcome(x)
        if key not in outcomes:
            outcomes[key] = list(x.choices)
            if stop_on_diff:
                break
        if nexec >= max_exec:
            capped = True
            break
        for i in range(len(prefix), len(x.points)):
            nen, still, pre, dev = x.points[i]
            for alt in range(1, nen):
                cost = (pre + (1 if still else 0)) if count == "preemptions" else dev + 1
                if bound is not None and cost > bound:
                    continue
                stack.append(x.choices[:i] + [alt])
    return {"executions": nexec, "outcomes": len(outcomes), "hot": sorted(hot), "racy": [list(map(str, r)) for r in racy[:12]],
            "n_racy": len(racy), "points": maxpoints, "capped": capped, "reference": ex0.result, "reference_arrays": ex0.arrays,
            "witness": next((v for k, v in outcomes.items() if k != ref), None),
            "write_counts": wcount, "threads": len(ex0.points) and None}


def multinomial(m, K):
    return math.factorial(m * K) // (math.factorial(m) ** K)


# ---------------------------------------------------------------------------
# finding the parallel region behind an entry point
# ---------------------------------------------------------------------------
class _Captured(Exception):
    pass


def _has_prange(pyfunc):
    try:
        fdef = _func_ast(pyfunc)
    except Exception:  # noqa: BLE001
        return False
    return any(isinstance(st, ast.For) and isinstance(st.iter, ast.Call) and isinstance(st.iter.func, ast.Name)
               and st.iter.func.id in ("_prange", "prange") for st in fdef.body)


def capture_prange_call(entry, args):
    """If `entry` (a dispatcher) has its prange loop in a helper, run entry's Python source up to the call of that helper and
    return (helper dispatcher, args of that call). Returns (entry, args) if entry itself contains the loop."""
    if _has_prange(entry.py_func):
        return entry, list(args)
    g = entry.py_func.__globals__
    targets = {k: v for k, v in g.items() if _is_dispatcher(v) and _has_prange(v.py_func)}
    if not targets:
        raise LiftError(f"{entry.py_func.__name__}: no prange loop found in it or in the helpers it can call")
    box = {}
    saved = {}
    # compiled helpers between the entry point and the loop (entry -> helper -> ... -> function with the prange loop) are run
    # as Python source too, so that the call of the loop-carrying function is seen
    reach = set(targets)
    grew = True
    while grew:
        grew = False
        for k, v in g.items():
            if k not in reach and _is_dispatcher(v) and v is not entry and reach & set(v.py_func.__code__.co_names):
                reach.add(k)
                grew = True
    try:
        for k in reach - set(targets):
            saved[k] = g[k]

            def passthrough(*a, __v=g[k], **kw):
                return __v.py_func(*a, **kw)

            g[k] = passthrough
        for k, v in targets.items():
            saved[k] = v

            def stub(*a, __k=k, __v=v, **kw):
                box["hit"] = (__v, list(a))
                raise _Captured()

            g[k] = stub
        try:
            entry.py_func(*[a.copy() if isinstance(a, np.ndarray) else a for a in args])
        except _Captured:
            pass
    finally:
        g.update(saved)
    if "hit" not in box:
        raise LiftError(f"{entry.py_func.__name__}: the prange-containing helper was not called")
    return box["hit"]


class _DevArr(np.ndarray):
    def copy_to_host(self, *a, **k):
        return np.array(self)


def capture_cuda_launch(host_fn, args):
    """Run a CUDA host wrapper (plain Python) with the device API replaced by NumPy stand-ins and every kernel launch
    recorded instead of executed. Returns (kernel dispatcher, (griddim, blockdim), kernel args, indices of output args)."""
    g = host_fn.__globals__
    rec = {}
    created = []

    class Shim:
        def __init__(self, real):
            self._real = real

        def to_device(self, a, *x, **k):
            return np.array(a, copy=True).view(_DevArr)

        def device_array(self, shape, dtype=np.float64, *x, **k):
            arr = np.full(shape, np.nan, dtype=dtype).view(_DevArr)
            created.append(arr)
            return arr

        def device_array_like(self, a, *x, **k):
            arr = np.full(np.shape(a), np.nan, dtype=np.asarray(a).dtype).view(_DevArr)
            created.append(arr)
            return arr

        def synchronize(self):
            return None

        def __getattr__(self, name):
            return getattr(self._real, name)

    class Launcher:
        def __init__(self, disp):
            self.disp = disp
            self.py_func = disp.py_func

        def __getitem__(self, cfg):
            def launch(*kargs):
                gd, bd = cfg[0], cfg[1]
                gd = int(gd[0] if isinstance(gd, (tuple, list)) else gd)
                bd = int(bd[0] if isinstance(bd, (tuple, list)) else bd)
                rec["hit"] = (self.disp, (gd, bd), list(kargs))
                raise _Captured()
            return launch

    saved = {}
    try:
        for k, v in list(g.items()):
            if k == "cuda" or (hasattr(v, "to_device") and hasattr(v, "device_array") and hasattr(v, "jit")):
                saved[k] = v
                g[k] = Shim(v)
            elif _is_dispatcher(v) and "CUDA" in type(v).__name__:
                saved[k] = v
                g[k] = Launcher(v)
        try:
            host_fn(*[a.copy() if isinstance(a, np.ndarray) else a for a in args])
        except _Captured:
            pass
    finally:
        g.update(saved)
    if "hit" not in rec:
        raise LiftError(f"{host_fn.__name__}: no kernel launch was recorded")
    disp, cfg, kargs = rec["hit"]
    outs = [i for i, a in enumerate(kargs) if any(a is c for c in created)]
    if not outs:
        raise LiftError(f"{host_fn.__name__}: the launch has no output array created by device_array")
    return disp, cfg, kargs, outs
