"""
Reference model of SpectrumResult's derived attributes, written from the text of
property C20 (and C09/C10/C11 for the quantities those define), as functions of
the raw per-bin fields only.
"""
import copy
import pickle

import numpy as np

AUTO_ONLY = ("psd", "G", "asd", "ps", "Gxx_emp_dev")
CROSS_ONLY = ("csd", "Gyx", "Hxy", "Hyx", "coh", "ccoh", "cs", "tf", "cf", "cf_db", "cf_rad", "cf_deg", "cf_rad_unwrapped",
              "cf_deg_unwrapped", "GyyCx", "GyyRx", "GyySx", "Gxy_dev", "Hxy_dev", "coh_dev", "Gxy_error", "Hxy_mag_error",
              "Hxy_rad_error", "Hxy_deg_error", "coh_error", "Gxy_emp_dev")
RAW = ("f", "r", "b", "L", "K", "navg", "O", "XX", "YY", "XY", "S12", "S2", "M2")


def dynamic_names(res):
    """All public, non-callable attribute names a user can read."""
    names = []
    for a in dir(res):
        if a.startswith("_"):
            continue
        try:
            v = getattr(res, a)
        except AttributeError:
            continue
        if callable(v):
            continue
        names.append(a)
    return names


def expected(d, iscsd, fs):
    """name -> expected value (None where not applicable). Only names whose relation the
    properties define are listed."""
    XX, YY, XY, S2, S12, M2 = d["XX"], d["YY"], d["XY"], d["S2"], d["S12"], d["M2"]
    navg = np.asarray(d["navg"], dtype=float)
    with np.errstate(all="ignore"):
        k = 2.0 / (fs * S2)
        e = {}
        e["Gxx"] = XX * k
        e["ENBW"] = fs * S2 / S12
        e["XX_mean"] = XX
        e["XY_M2"] = M2
        e["XY_emp_var"] = M2 / navg
        e["XY_emp_dev"] = np.sqrt(M2 / navg)
        e["Gxx_error"] = 1 / np.sqrt(navg)
        e["Gyy_error"] = 1 / np.sqrt(navg)
        e["Gxx_dev"] = e["Gxx"] / np.sqrt(navg)
        if iscsd:
            e["Gyy"] = YY * k
            e["Gxy"] = XY * k
            e["YY_mean"] = YY
            e["csd"] = e["Gxy"]
            e["Gyx"] = np.conj(e["Gxy"])
            e["Hxy"] = np.conj(XY) / XX
            e["Hyx"] = np.conj(e["Hxy"])
            e["tf"] = e["Hxy"]
            coh = (np.abs(XY) / XX) * (np.abs(XY) / YY)
            e["coh"] = coh
            e["ccoh"] = XY / (np.sqrt(XX) * np.sqrt(YY))
            e["cs"] = e["csd"] * e["ENBW"]
            e["cf"] = np.abs(e["Hxy"])
            e["cf_db"] = 20 * np.log10(e["cf"])
            e["cf_rad"] = np.angle(e["Hxy"])
            e["cf_deg"] = e["cf_rad"] * 180 / np.pi
            e["GyyCx"] = coh * e["Gyy"]
            e["GyyRx"] = (1 - coh) * e["Gyy"]
            e["Gyy_dev"] = e["Gyy"] / np.sqrt(navg)
            e["Gxy_emp_dev"] = e["XY_emp_dev"] * k
            for a in AUTO_ONLY:
                e[a] = None
        else:
            e["Gyy"] = e["Gxx"]
            e["Gxy"] = e["Gxx"]
            e["YY_mean"] = XX
            e["psd"] = e["Gxx"]
            e["G"] = e["Gxx"]
            e["asd"] = np.sqrt(e["Gxx"])
            e["ps"] = e["Gxx"] * e["ENBW"]
            e["Gyy_dev"] = e["Gxx_dev"]
            e["Gxx_emp_dev"] = e["XY_emp_dev"] * k
            for a in CROSS_ONLY:
                e[a] = None
    for r in RAW:
        e[r] = d[r]
    return e


def values_equal(a, b, rel=1e-12, scale=None):
    """Structural equality with a relative tolerance for floats (NaN == NaN, inf == inf).  `scale` (array or scalar): the size of
    the operands the quantity is a difference of - the comparison then also allows rel*scale absolutely (cancellation)."""
    if a is None or b is None:
        return a is None and b is None
    a, b = np.asarray(a), np.asarray(b)
    if a.shape != b.shape:
        return False
    if a.dtype == object or b.dtype == object:
        return all(np.array_equal(np.asarray(u), np.asarray(v)) for u, v in zip(a.ravel(), b.ravel()))
    if a.dtype.kind in "iub" and b.dtype.kind in "iub":
        return bool(np.array_equal(a, b))
    with np.errstate(all="ignore"):
        fin = np.isfinite(a) & np.isfinite(b)
        if not np.array_equal(np.isnan(a), np.isnan(b)):
            return False
        inf = ~fin & ~np.isnan(a)
        if inf.any() and not np.array_equal(a[inf], b[inf]):
            return False
        extra = 0.0
        if scale is not None:
            sc = np.broadcast_to(np.abs(np.asarray(scale, dtype=float)), a.shape)[fin]
            extra = rel * np.where(np.isfinite(sc), sc, 0.0)
        return bool(np.all(np.abs(a[fin] - b[fin]) <= rel * np.abs(b[fin]) + extra + 1e-300))


def identical(a, b):
    """Bitwise equality of two attribute values (None, scalars, arrays, object arrays)."""
    if a is None or b is None:
        return a is None and b is None
    a, b = np.asarray(a), np.asarray(b)
    if a.shape != b.shape or a.dtype != b.dtype:
        return False
    if a.dtype == object:
        return all(identical(u, v) for u, v in zip(a.ravel(), b.ravel()))
    return a.tobytes() == b.tobytes()


def clone_raw(d):
    """Deep copy of a results dict (arrays copied, ragged D copied)."""
    out = {}
    for k, v in d.items():
        if k == "D":
            out[k] = [np.array(x, dtype=np.int64, copy=True) for x in v]
        elif isinstance(v, np.ndarray):
            out[k] = v.copy()
        else:
            out[k] = copy.deepcopy(v)
    return out


def roundtrip(obj, how):
    if how == "copy":
        return copy.copy(obj)
    if how == "deepcopy":
        return copy.deepcopy(obj)
    proto = int(how.split(":")[1])
    return pickle.loads(pickle.dumps(obj, protocol=proto))
