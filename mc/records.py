"""Deterministic 'identifiable' records: every sample distinct, no symmetry, so
that index / alignment / channel mix-ups change the result."""
import itertools

import numpy as np

PHI = 0.6180339887498949
SIGMA = (-2.0, 0.0, 1.0)  # data alphabet


def id1(n):
    k = np.arange(n, dtype=np.float64)
    return np.mod(PHI * (k + 1) ** 2, 1.0) - 0.5


def id2(n):
    k = np.arange(n, dtype=np.float64)
    return np.cos(1.7 * k ** 1.3)


def id3(n):
    k = np.arange(n, dtype=np.float64)
    return np.sin(0.9 * k + 0.3 * np.sin(0.37 * k * k)) * (1 + 0.5 * np.mod(k * 0.7548776662466927, 1.0))


def id4(n):
    k = np.arange(n, dtype=np.float64)
    return np.mod(0.5698402909980532 * (k + 3) ** 2 + 0.1 * k, 1.0) - 0.45


def powrec(n):
    k = np.arange(n)
    return np.asarray(2.0 ** (k % 11), dtype=np.float64)


def chirp(n):
    k = np.arange(n, dtype=np.float64)
    return np.cos(2 * np.pi * (0.01 * k + 0.2 * k * k / max(n, 1)))


def seeded(n, seed, salt=0):
    rng = np.random.Generator(np.random.PCG64([int(seed) & 0xFFFFFFFF, 0x5EC, int(salt)]))
    return rng.uniform(-1.0, 1.0, size=n)


def off(n):
    """Large offset plus small structure: per-segment products with low relative scatter."""
    return 1000.0 + 0.01 * id1(n)


def off2(n):
    return -700.0 + 0.02 * id2(n)


def low1(n):
    """Strong content in the lowest bins of the record (1.3 cycles over the record) plus identifiable structure."""
    k = np.arange(n, dtype=np.float64)
    return np.sin(2 * np.pi * 1.3 * k / n) + 0.05 * id1(n)


def low2(n):
    """Partner of low1: same tone with another amplitude and a phase lag of 1.1 rad."""
    k = np.arange(n, dtype=np.float64)
    return 0.7 * np.sin(2 * np.pi * 1.3 * k / n - 1.1) + 0.05 * id3(n)


REC = {"low1": low1, "low2": low2, "off": off, "off2": off2, "id1": id1, "id2": id2, "id3": id3, "id4": id4, "pow": powrec, "chirp": chirp}


def get(name, n, seed=0):
    if name.startswith("seed"):
        salt = int(name[4:] or 0)
        return seeded(n, seed, salt)
    return REC[name](n)


def sigma_all(L, alphabet=SIGMA):
    """All of alphabet^L as a (len(alphabet)^L, L) float64 array, lexicographic."""
    return np.array(list(itertools.product(alphabet, repeat=L)), dtype=np.float64).reshape(-1, L)
