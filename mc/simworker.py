"""Runs one shard of a check module inside a process where Numba's CUDA simulator
is active (NUMBA_ENABLE_CUDASIM=1 must be in the environment before numba is
imported).  stdin: shard JSON; last stdout line: result JSON."""
import json
import os
import sys

assert os.environ.get("NUMBA_ENABLE_CUDASIM") == "1"
sys.path.insert(0, os.environ.get("VERIF_ROOT") or os.path.dirname(os.path.dirname(os.path.abspath(__file__))))
from mc import framework as fw  # noqa: E402

fw.pin_env("1")
import importlib  # noqa: E402

modname = sys.argv[1]
shard = json.loads(sys.stdin.read())
mod = importlib.import_module(modname)
from speckit import core  # noqa: E402

if not core._CUDA_ENABLED:
    print("CUDA simulator did not enable speckit's CUDA backend", file=sys.stderr)
    sys.exit(3)
res = mod.run_shard(shard)
sys.stdout.write("\n" + json.dumps(fw.jsonable(res)) + "\n")
