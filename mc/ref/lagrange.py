"""Exact Lagrange interpolation weights in rational arithmetic (property C16)."""
from fractions import Fraction
from functools import lru_cache


@lru_cache(maxsize=4096)
def weights(p: int, d: Fraction):
    """Weights h[k], k=0..p, of the unique degree-p polynomial through the nodes
    t_k = k - (p-1)/2 ... centred so that the evaluation point lies between the two
    middle nodes:  nodes m = -(halfp-1) .. halfp  (halfp=(p+1)/2), evaluated at d in [0,1)."""
    halfp = (p + 1) // 2
    nodes = list(range(-(halfp - 1), halfp + 1))
    out = []
    for k, tk in enumerate(nodes):
        num, den = Fraction(1), Fraction(1)
        for m, tm in enumerate(nodes):
            if m != k:
                num *= (d - tm)
                den *= (tk - tm)
        out.append(num / den)
    return nodes, out
