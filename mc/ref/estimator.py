"""
Reference model for the per-bin statistics (written from the property text, not
from the implementation):

    X_k(w) = sum_n win[n] * (x[s_k+n] - trend_k[n]) * exp(-i*w*n)

trend_k = least-squares polynomial of degree min(p, L-1) fitted to segment k
(p = detrend order; p = -1: no trend), and per bin

    MXX = mean_k |X_k|^2          MYY = mean_k |Y_k|^2
    MU  = mean_k X_k*conj(Y_k)    M2  = mean_k |X_k*conj(Y_k) - MU|^2  (0 for K=1)

Everything is evaluated in numpy.longdouble (x87 80-bit here: u = 2^-64).
"""
import numpy as np

LD = np.longdouble
U64 = 2.0 ** -53


def poly_basis(L: int, order: int):
    """Orthonormal basis (longdouble) of polynomials of degree <= min(order, L-1)
    on L equispaced points; None for order < 0."""
    if order < 0:
        return None
    deg = min(order, L - 1)
    t = np.linspace(LD(-1), LD(1), L) if L > 1 else np.zeros(1, dtype=LD)
    cols = []
    for d in range(deg + 1):
        v = t ** d
        for _ in range(2):  # modified Gram-Schmidt, twice
            for q in cols:
                v = v - q * np.sum(q * v)
        nrm = np.sqrt(np.sum(v * v))
        cols.append(v / nrm)
    return np.stack(cols, axis=1)  # (L, deg+1)


def detrend_rows(segs, order):
    """segs: (K, L) longdouble -> detrended rows."""
    if order < 0:
        return segs
    B = poly_basis(segs.shape[1], order)
    coef = segs @ B
    return segs - coef @ B.T


def seg_dft(x, starts, L, win, w, order):
    """X_k for all segments; returns complex longdouble array (K,)."""
    x = np.asarray(x, dtype=LD)
    starts = np.asarray(starts, dtype=np.int64)
    if starts.size * L > (1 << 23):     # very large bins: the same computation over blocks of segments (memory)
        blk = max(1, (1 << 22) // L)
        parts = [seg_dft(x, starts[i:i + blk], L, win, w, order) for i in range(0, starts.size, blk)]
        return np.concatenate([p[0] for p in parts]), np.concatenate([p[1] for p in parts])
    idx = starts[:, None] + np.arange(L)[None, :]
    segs = detrend_rows(x[idx], order)
    n = np.arange(L, dtype=LD)
    wl = LD(w)
    c = np.cos(wl * n)
    s = np.sin(wl * n)
    v = segs * np.asarray(win, dtype=LD)[None, :]
    re = v @ c
    im = -(v @ s)
    return re, im


def stats_from_dfts(xr, xi, yr, yi):
    """(MXX, MYY, mu_r, mu_i, M2) from per-segment DFT values (longdouble)."""
    xx = xr * xr + xi * xi
    yy = yr * yr + yi * yi
    # X * conj(Y)
    pr = xr * yr + xi * yi
    pi = xi * yr - xr * yi
    K = xx.shape[0]
    mxx = xx.mean()
    myy = yy.mean()
    mur = pr.mean()
    mui = pi.mean()
    if K >= 2:
        m2 = np.mean((pr - mur) ** 2 + (pi - mui) ** 2)
    else:
        m2 = LD(0)
    return mxx, myy, mur, mui, m2


def ref_stats(x, y, starts, L, win, w, order):
    """Reference 5-tuple (as float64) and the tolerance 5-tuple for a correct
    float64 implementation using a second-order recurrence (see tolerances())."""
    xr, xi = seg_dft(x, starts, L, win, w, order)
    if y is None:
        yr, yi = xr, xi
    else:
        yr, yi = seg_dft(y, starts, L, win, w, order)
    st = stats_from_dfts(xr, xi, yr, yi)
    return tuple(float(v) for v in st)


def m2_tolerance(m2ref, txy, K):
    """Derived bound for the scatter M2 = mean_k |P_k - mu|^2 of a correct implementation that forms the
    per-segment products P_k (each within `txy` of the exact value in re and im), their mean, and then the
    mean squared distance from that mean:  by the triangle inequality in l2,
    |sqrt(M2') - sqrt(M2)| <= max_k |e_k - e_mu| <= 2*sqrt(2)*txy, hence
    |M2' - M2| <= 2*d*sqrt(M2) + d^2 with d = 4*txy, plus the relative rounding of the final mean."""
    d = 4.0 * txy
    return 2.0 * d * float(np.sqrt(max(m2ref, 0.0))) + d * d + 16.0 * (K + 2) * U64 * abs(m2ref) + 1e-300


def tolerances(x, y, starts, L, win, safety=1.0, m2ref=None, omega=None):
    """Derived error bound of a *correct* float64 implementation.

    The per-segment value is produced by a Goertzel-type second-order recurrence
    whose forward error is bounded by  c*u*L^2*sum|v_n|  (Gentleman 1969; worst
    case w -> 0, pi).  Detrending in float64 perturbs every sample of the segment
    by <= 8*u*(L+2)*max|x|, which the same bound absorbs when L^2 is replaced by
    (L+4)^2.  We take c = 64 (so the bound is >= 100x what a correct
    implementation shows for the small L used here) and propagate it to the
    products.
    """
    x = np.asarray(x, dtype=np.float64)
    starts = np.asarray(starts, dtype=np.int64)
    win = np.asarray(win, dtype=np.float64)
    sw = float(np.sum(np.abs(win)))
    idx = starts[:, None] + np.arange(L)[None, :]
    ax = float(np.max(np.abs(x[idx]))) if idx.size else 0.0
    ay = ax if y is None else float(np.max(np.abs(np.asarray(y, dtype=np.float64)[idx])))
    # scale of |X|: with detrending the residual is bounded by 2*max|x| (projection
    # plus original), so 2*sw*ax bounds |X_k| for every order
    Sx = 2.0 * sw * ax
    Sy = 2.0 * sw * ay
    rel = 64.0 * U64 * (L + 4) ** 2 * safety
    if omega is not None:
        # frequency-aware form, used for long segments only (where the L^2 worst case would swamp the estimates): the
        # recurrence propagates each rounding error with a gain of at most min(L, 1/|sin w|), and the partial sums are
        # bounded by sum|v| times the same gain; (L+4)^2 is kept as the cap, so this is never looser than the form above
        s2 = float(np.sin(omega)) ** 2
        rel = 64.0 * U64 * (L + 4) * min(L + 4.0, 1.0 / max(s2, 1e-300)) * safety
    dX = rel * Sx
    dY = rel * Sy
    tiny = 1e-300
    txx = 2 * Sx * dX + dX * dX + tiny
    tyy = 2 * Sy * dY + dY * dY + tiny
    txy = Sx * dY + Sy * dX + dX * dY + tiny
    # M2 = mean |P_k - mu|^2 with |P_k| <= Sx*Sy: derivative bounded by 4*Sx*Sy
    if m2ref is None:
        tm2 = 8 * Sx * Sy * txy + 4 * txy * txy + tiny   # bound that needs no knowledge of the scatter
    else:
        tm2 = m2_tolerance(m2ref, txy, len(starts))
    return txx, tyy, txy, txy, tm2


def rows_dft(rows, win, w, order):
    """Each row of `rows` (M, L) is one segment: returns (re, im) longdouble (M,)."""
    rows = np.asarray(rows, dtype=LD)
    L = rows.shape[1]
    segs = detrend_rows(rows, order)
    n = np.arange(L, dtype=LD)
    wl = LD(w)
    v = segs * np.asarray(win, dtype=LD)[None, :]
    return v @ np.cos(wl * n), -(v @ np.sin(wl * n))


def tol_scales(L, win, safety=1.0):
    """(rel, sw): |dX| <= rel * 2*sw*max|x| for a correct float64 implementation."""
    sw = float(np.sum(np.abs(np.asarray(win, dtype=np.float64))))
    return 64.0 * U64 * (L + 4) ** 2 * safety, sw
