"""
Predicates on scheduler plans, written from the text of properties C02, C03, C04
(not from schedulers.py).  Each predicate returns a list of (tag, message).

`plan` is the dict returned by a scheduler (or by SpectrumAnalyzer.plan()),
`cfg` = dict(N, fs, olap, bmin, Lmin, Jdes, Kdes), `sched` in
{'lpsd','ltf','vectorized_ltf','new_ltf'}.
"""
import math

import numpy as np

U = 2.0 ** -53


def eff(cfg, sched):
    """Effective bmin/Lmin (lpsd fixes bmin=1, Lmin=1)."""
    if sched == "lpsd":
        return 1.0, 1
    return float(cfg["bmin"]), int(cfg["Lmin"])


def admissible(cfg):
    N = cfg["N"]
    return (N >= 8 and cfg["fs"] > 0 and 0 <= cfg["olap"] < 1 and 1 <= cfg["bmin"] < N / 2
            and 1 <= cfg["Lmin"] <= N and cfg["Jdes"] >= 1 and cfg["Kdes"] >= 1)


def _arr(plan):
    f = np.asarray(plan["f"], dtype=np.float64)
    r = np.asarray(plan["r"], dtype=np.float64)
    b = np.asarray(plan["b"], dtype=np.float64)
    L = np.asarray(plan["L"]).astype(np.int64)
    K = np.asarray(plan["K"]).astype(np.int64)
    navg = np.asarray(plan["navg"]).astype(np.int64)
    O = np.asarray(plan["O"], dtype=np.float64)
    D = [np.asarray(d).astype(np.int64) for d in plan["D"]]
    return f, r, b, L, K, navg, O, D


# ---------------------------------------------------------------------------
def c02(plan, cfg, sched):
    out = []
    N = int(cfg["N"])
    bmin, Lmin = eff(cfg, sched)
    f, r, b, L, K, navg, O, D = _arr(plan)
    nf = len(f)
    if nf < 1:
        return [("empty", "plan has no bins")]
    if not (len(r) == len(b) == len(L) == len(K) == len(navg) == len(O) == len(D) == nf):
        return [("shape", "per-bin fields have different lengths")]
    if int(plan.get("nf", nf)) != nf:
        out.append(("nf", f"nf={plan.get('nf')} but {nf} bins"))
    for j in range(nf):
        d = D[j]
        Lj = int(L[j])
        if d.size < 1:
            out.append(("noseg", f"bin {j} has no segment"))
            continue
        if int(navg[j]) != d.size:
            out.append(("navg", f"bin {j}: navg={int(navg[j])} but {d.size} starts"))
        if int(K[j]) != d.size:
            out.append(("K", f"bin {j}: K={int(K[j])} but {d.size} starts"))
        if d.min() < 0 or d.max() + Lj > N:
            out.append(("oob", f"bin {j}: L={Lj} starts span [{d.min()},{d.max()}] outside 0..N-L={N - Lj}"))
        if d[0] != 0:
            out.append(("first", f"bin {j}: first start {d[0]} != 0"))
        if d.size > 1 and not np.all(np.diff(d) > 0):
            out.append(("incr", f"bin {j}: starts not strictly increasing (L={Lj}, K={d.size})"))
        if d[-1] + Lj != N:
            out.append(("last", f"bin {j}: last segment ends at {d[-1] + Lj} != N={N} (L={Lj}, K={d.size})"))
        if not (max(1, Lmin) <= Lj <= N):
            out.append(("Lrange", f"bin {j}: L={Lj} outside [{max(1, Lmin)},{N}]"))
        if d.size == 1 and Lj != N:
            out.append(("single", f"bin {j}: single segment but L={Lj} != N={N}"))
        if len(out) > 12:
            break
    return out


# ---------------------------------------------------------------------------
def rho_vec(cfg, sched):
    """Spacing ratio of the vectorised scheduler's lookup grid (10*Jdes log points)."""
    if sched != "vectorized_ltf":
        return 1.0
    bmin, _ = eff(cfg, sched)
    N = cfg["N"]
    fmin = bmin * cfg["fs"] / N
    fmax = cfg["fs"] / 2
    n = int(10 * cfg["Jdes"])
    return (fmax / fmin) ** (1.0 / max(n - 1, 1))


def c03(plan, cfg, sched):
    out = []
    N, fs = int(cfg["N"]), float(cfg["fs"])
    bmin, Lmin = eff(cfg, sched)
    f, r, b, L, K, navg, O, D = _arr(plan)
    nf = len(f)
    if nf < 1:
        return [("empty", "plan has no bins")]
    rl = r * L
    bad = np.nonzero(~(np.abs(rl - fs) <= 4 * U * fs))[0]
    if bad.size:
        j = int(bad[0])
        out.append(("rL", f"bin {j}: r*L={rl[j]!r} != fs={fs!r} (r={r[j]!r}, L={int(L[j])})"))
    if nf > 1:
        step = f[:-1] + r[:-1]
        bad = np.nonzero(~(np.abs(f[1:] - step) <= 4 * U * np.abs(f[1:])))[0]
        if bad.size:
            j = int(bad[0])
            out.append(("step", f"f[{j + 1}]={f[j + 1]!r} != f[{j}]+r[{j}]={step[j]!r}"))
        if not np.all(np.diff(f) > 0):
            out.append(("fincr", "frequencies not strictly increasing"))
    f0 = bmin * fs / N
    if not (abs(f[0] - f0) <= 4 * U * f0):
        out.append(("f0", f"f[0]={f[0]!r} != bmin*fs/N={f0!r}"))
    if not np.all(f < fs / 2):
        out.append(("nyq", f"f[-1]={f[-1]!r} not below fs/2={fs / 2!r}"))
    with np.errstate(all="ignore"):
        bad = np.nonzero(~(np.abs(b - f / r) <= 8 * U * np.abs(b)))[0]
    if bad.size:
        j = int(bad[0])
        out.append(("b", f"bin {j}: b={b[j]!r} != f/r={f[j] / r[j]!r}"))
    bl = f * L / fs
    bad = np.nonzero(~(np.abs(b - bl) <= 16 * U * np.abs(bl)))[0]
    if bad.size:
        j = int(bad[0])
        out.append(("bL", f"bin {j}: b={b[j]!r} != f*L/fs={bl[j]!r}"))
    if "m" in plan:
        m = np.asarray(plan["m"], dtype=np.float64)
        if m.shape != b.shape or not np.array_equal(m, b):
            out.append(("m", "m differs from b"))
    # lower bound on the bin number: rounding of L to an integer (half a sample)
    # and, for the vectorised scheduler, one step rho of its lookup grid
    rho = rho_vec(cfg, sched)
    lim = bmin / rho - f / (2 * fs) - 1e-9
    bad = np.nonzero(~(b >= lim))[0]
    if bad.size:
        j = int(bad[0])
        out.append(("bmin", f"bin {j}: b={b[j]!r} < bmin/rho - f/(2fs) = {lim[j]!r} (bmin={bmin}, L={int(L[j])})"))
    return out


def c03_lpsd_is_ltf(p_lpsd, p_ltf):
    out = []
    for k in ("f", "r", "b", "O"):
        a, c = np.asarray(p_lpsd[k], float), np.asarray(p_ltf[k], float)
        if a.shape != c.shape or not np.allclose(a, c, rtol=1e-12, atol=0):
            out.append(("lpsd", f"lpsd_plan differs from ltf_plan(bmin=1,Lmin=1) in '{k}'"))
            return out
    for k in ("L", "K", "navg"):
        if not np.array_equal(np.asarray(p_lpsd[k]), np.asarray(p_ltf[k])):
            out.append(("lpsd", f"lpsd_plan differs from ltf_plan(bmin=1,Lmin=1) in '{k}'"))
            return out
    for a, c in zip(p_lpsd["D"], p_ltf["D"]):
        if not np.array_equal(np.asarray(a), np.asarray(c)):
            out.append(("lpsd", "lpsd_plan differs from ltf_plan(bmin=1,Lmin=1) in 'D'"))
            break
    return out


# ---------------------------------------------------------------------------
def nearest_int_ok(k, x):
    """k is an integer nearest to x (either neighbour accepted at a tie)."""
    return abs(k - x) <= 0.5 + 1e-9 * max(1.0, abs(x))


def c04(plan, cfg, sched):
    out = []
    N, fs, olap = int(cfg["N"]), float(cfg["fs"]), float(cfg["olap"])
    Jdes, Kdes = int(cfg["Jdes"]), int(cfg["Kdes"])
    bmin, Lmin = eff(cfg, sched)
    f, r, b, L, K, navg, O, D = _arr(plan)
    nf = len(f)
    if nf < 1:
        return [("empty", "plan has no bins")]
    if nf > 1:
        j = np.nonzero(np.diff(L) > 0)[0]
        if j.size:
            j = int(j[0])
            out.append(("Lmono", f"L increases with frequency: L[{j}]={int(L[j])} < L[{j + 1}]={int(L[j + 1])}"))
        j = np.nonzero(np.diff(navg) < 0)[0]
        if j.size:
            j = int(j[0])
            out.append(("Kmono", f"navg decreases with frequency: navg[{j}]={int(navg[j])} > navg[{j + 1}]={int(navg[j + 1])}"))
    xov = 1.0 - olap
    # number of averages: nearest integer to 1+(N-L)/((1-olap)L), capped at N-L+1
    for j in range(nf):
        Lj = int(L[j])
        ideal = 1.0 + (N - Lj) / (xov * Lj)
        cap = N - Lj + 1
        k = int(navg[j])
        if ideal > cap + 0.5:
            ok = (k == cap)
        else:
            ok = nearest_int_ok(k, ideal) and k <= cap
            # at the cap boundary both readings are legitimate
            ok = ok or (k == cap and ideal >= cap - 0.5 - 1e-9)
        if not ok:
            out.append(("navg", f"bin {j}: navg={k} is not the integer nearest to 1+(N-L)/((1-olap)L)={ideal!r} capped at N-L+1={cap} (L={Lj})"))
            break
    # even spreading and reported overlap
    for j in range(nf):
        d = D[j]
        Lj = int(L[j])
        k = d.size
        if k > 1:
            ideal = np.arange(k) * ((N - Lj) / (k - 1))
            dev = np.abs(d - ideal)
            if not np.all(dev <= 0.5 + 1e-9):
                i = int(np.argmax(dev))
                out.append(("spread", f"bin {j}: start {i} = {int(d[i])} is {dev[i]:.3f} samples from its even position {ideal[i]:.3f} (L={Lj}, K={k})"))
                break
            Oref = float(np.mean((Lj - np.diff(d)) / Lj))
        else:
            Oref = 0.0
        if not (abs(O[j] - Oref) <= 1e-9):
            out.append(("O", f"bin {j}: reported overlap {O[j]!r} != realised mean overlap {Oref!r} (L={Lj}, K={k})"))
            break
    # log spacing and Kdes where attainable and unclamped (lpsd, ltf, vectorised)
    if sched in ("lpsd", "ltf", "vectorized_ltf"):
        c = (N / 2.0) ** (1.0 / Jdes) - 1.0
        freslim = (fs / N) * (1 + xov * (Kdes - 1))
        rho = rho_vec(cfg, sched)
        for j in range(nf):
            fj = float(f[j])
            # the vectorised scheduler evaluates its rule at a lookup-grid point
            # f_g in [fj, rho*fj]; demand the condition on the whole interval
            lo, hi = fj, fj * rho
            unclamped = (lo * c >= freslim * (1 + 1e-9)
                         and fs / (lo * c) <= N - 0.5 and fs / (hi * c) >= max(1, Lmin) + 0.5
                         and 1.0 / c >= bmin * (1 + 1e-9))
            if not unclamped:
                continue
            Lhi = fs / (lo * c)
            Llo = fs / (hi * c)
            Lj = int(L[j])
            nseg_small = 1 + (N - (Lhi + 0.5)) / (xov * (Lhi + 0.5))
            if nseg_small < 1.5 + 1e-9:
                continue  # single-segment rule may legitimately force L=N here
            if not (Llo - 0.5 - 1e-6 <= Lj <= Lhi + 0.5 + 1e-6):
                out.append(("logL", f"bin {j}: unclamped but L={Lj} not within half a sample of fs/(f*c) in [{Llo:.4f},{Lhi:.4f}] (f={fj!r}, c={c!r})"))
                break
            # at least Kdes averages unless Kdes is not attainable with this integer L
            kj = int(navg[j])
            attain = min(1.0 + (N - Lj) / (xov * Lj), N - Lj + 1.0)
            if kj < Kdes and attain >= Kdes:
                out.append(("Kdes", f"bin {j}: unclamped, navg={kj} < Kdes={Kdes} although 1+(N-L)/((1-olap)L)={attain:.4f} (L={Lj})"))
                break
    return out
