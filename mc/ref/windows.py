"""Windows built independently of speckit (float64 is enough: the window is an
*input* of the kernels; for the Kaiser window the reference is the definition
w[n] = I0(beta*sqrt(1-(2n/L-1)^2))/I0(beta), n=0..L-1 (DFT-even: period L)."""
import numpy as np


def _i0(x):
    # power series, converges for all x; longdouble
    x = np.asarray(x, dtype=np.longdouble)
    y = (x / 2) ** 2
    term = np.ones_like(x)
    s = np.ones_like(x)
    for k in range(1, 400):
        term = term * y / (k * k)
        s = s + term
        if np.all(term <= 1e-22 * s):
            break
    return s


def kaiser_alpha_ref(psll):
    # polynomial from Heinzel et al. (2002), eq. for alpha(PSLL); this is the
    # documented relation, reproduced here so that the check has its own copy
    x = psll / 100.0
    return ((((0.0889732 * x) - 0.493285) * x) + 4.71469) * x - 0.0821377


def kaiser_dft_even(L, beta):
    """Kaiser window of period L (first L points of the symmetric L+1 window)."""
    if L == 1:
        # symmetric window of 2 points: both ends -> I0(0)/I0(beta)
        return np.array([float(1.0 / _i0(np.longdouble(beta)))])
    n = np.arange(L, dtype=np.longdouble)
    r = 2 * n / L - 1
    arg = np.longdouble(beta) * np.sqrt(np.maximum(0, 1 - r * r))
    return np.asarray(_i0(arg) / _i0(np.longdouble(beta)), dtype=np.float64)


def rect(L):
    return np.ones(L)


def ramp(L):
    return np.arange(1, L + 1, dtype=np.float64)


def hann_sym(L):
    """numpy.hanning definition: 0.5-0.5cos(2 pi n/(L-1)); L=1 -> [1]."""
    if L == 1:
        return np.ones(1)
    n = np.arange(L)
    return 0.5 - 0.5 * np.cos(2 * np.pi * n / (L - 1))


def asym_custom(L):
    """Asymmetric custom window used as a user callable."""
    n = np.arange(L, dtype=np.float64)
    return 0.3 + 0.7 * (n + 1) / L + 0.1 * np.cos(0.9 * n)


def gapneg(L):
    """Real window with exact zeros in the interior and negative taps (the property
    quantifies over *all* real windows): 1, 0, -0.5, 2, 1, 0, -0.5, 2, ..."""
    return np.array([(1.0, 0.0, -0.5, 2.0)[n % 4] for n in range(L)], dtype=np.float64)


WINDOWS = {"rect": rect, "ramp": ramp, "hann": hann_sym, "asym": asym_custom, "gapneg": gapneg}


def build(name, L, psll=200.0):
    if name == "kaiser":
        return kaiser_dft_even(L, kaiser_alpha_ref(psll) * np.pi)
    return WINDOWS[name](L)
