"""Bendat & Piersol random-error expressions, written from the text of property
C10: functions of the estimate, the coherence g2 and the number of averages n."""
import numpy as np


def gxx_error(n):
    return 1.0 / np.sqrt(n)


def gxy_error(g2, n):
    return 1.0 / np.sqrt(g2 * n)


def h_mag_error(g2, n):
    return np.sqrt(np.abs(1.0 - g2)) / np.sqrt(2.0 * g2 * n)


def coh_error(g2, n):
    return np.sqrt(2.0) * (1.0 - g2) / (np.sqrt(g2) * np.sqrt(n))


def gxx_dev(G, n):
    return G / np.sqrt(n)


def gxy_dev(Gxy, g2, n):
    return np.abs(Gxy) / np.sqrt(g2 * n)


def h_dev(H, g2, n):
    return np.abs(H) * np.sqrt(np.abs(1.0 - g2)) / np.sqrt(2.0 * g2 * n)


def coh_dev(g2, n):
    return np.sqrt(2.0 * g2) * np.abs(1.0 - g2) / np.sqrt(n)
