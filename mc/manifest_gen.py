"""Generates /verif/MANIFEST.json from the table below (run: python3 mc/manifest_gen.py)."""
import json
import os

ROOT = "/verif"
E1 = "E1-bounded-exhaustive-enumeration"
E2 = "E2-history-exploration"
E3 = "E3-schedule-exploration"

# property -> (engine, level text, level note, technique, design_ref)
CHECKS = {
    "C01": (E1,
            "Every kernel call is followed by a byte comparison of its input arrays (kernels only read them); one NumPy-backend bin with K*L > 2^25 (853 x 40000, line at the analysis frequency, frequency-aware rounding allowance). Kernel-level analysis frequencies include |sin w| < 1e-4 (3e-5, pi-3e-5, 1e-8). Windows include one with interior zeros and negative taps; low-relative-scatter records; two realistic-size bins per backend/mode/order (K=300xL=4096, K=33000xL=40). Every record over the alphabet {-2,0,1}^L (L<=4 quick, <=5 cross / <=7 auto thorough), every ordered start sequence on a 7-sample record, all windows/frequencies/orders in the stated lattice are run through the real Numba, NumPy and CUDA-simulator kernels and compared with a longdouble evaluation of the defining sum; no sampling.",
            "small-scope: alphabet {-2,0,1}, identifiable records, L<=7 (long L only in thorough part C); CUDA = core_cuda.py under numba's simulator; tolerance is a derived rounding bound of the recurrence",
            "bounded exhaustive input enumeration against a reference model (explicit-state, no sampling)", "DESIGN.md §4 C01"),
    "C02": (E1,
            "Analyzer plan for N=2^23+5 (bins with more than 2^22 segments). Analyzer route with the scheduler named by string and passed as a function, also with Lmin/bmin configured under LPSD; sampling rates 3e-8 and 4e7 on part of the lattice. Plus process-level ordered-pair call histories (fork->A->fork->B vs pristine) over a 29-configuration set, analyzer plan == direct plan, and spot configurations at N=60000/100000. Full product of a configuration lattice (every N in 8..40/64 plus large N, 8 overlaps incl. 0.9/0.99, all clamp-activating bmin/Lmin, 7-8 Jdes, 5 Kdes, 3-4 fs) for all four schedulers, each called directly and through SpectrumAnalyzer.plan(); every bin of every plan is checked against the segmentation predicates.",
            "configurations off the lattice are not covered; admissibility filter is the property's quantifier",
            "bounded exhaustive configuration enumeration with per-state invariants", "DESIGN.md §4 C02"),
    "C03": (E1,
            "Sampling rates 3e-8 and 4e7 on part of the lattice. Plus the process-level ordered-pair call histories and N=60000/100000 spot configurations. Same lattice; per-plan invariants r*L=fs, f[j+1]=f[j]+r[j], f[0]=bmin*fs/N, monotone, below Nyquist, b=f/r=f*L/fs, lower bound on b with the two slacks the property names, lpsd == ltf(bmin=1,Lmin=1).",
            "float comparisons at 4-16 ulp; slack for b derived from half-sample rounding of L and the lookup-grid ratio",
            "bounded exhaustive configuration enumeration with per-state invariants", "DESIGN.md §4 C03"),
    "C04": (E1,
            "Spot configuration N=200000, olap=0.9 (bins with >= 2^16 segments); sampling rates 3e-8 and 4e7 on part of the lattice. Plus process-level ordered-pair call histories incl. forced-bin-count searches, analyzer plan == direct plan on a sub-lattice, forced targets at N=60000. Same lattice with the C04 predicates (monotone L/navg, log spacing and Kdes where a reference decision procedure says no clamp is active, nearest-integer navg with cap, even spreading, realised overlap, vectorised-vs-iterative bin count) plus every force_target_nf target in 100..400 for each scheduler.",
            "'no clamp active' decided by a reference procedure written from the documented targets; ties accepted either way",
            "bounded exhaustive configuration enumeration with per-state invariants", "DESIGN.md §4 C04"),
    "C05": (E1,
            "Band restriction for a user-supplied scheduler with an unsorted grid. Sub-lattice with fs=3e-8 and 4e7; four 140000-sample analyses (segment lengths beyond 2^16, frequencies below 1e-5 fs) on records with strong low-bin content. Plus off-grid single-bin requests (non-dividing fres, off-plan L), process-level ordered-pair call histories, a 1613-bin plan and an N=20000 default-parameter analysis. Full product of an analysis-configuration lattice (N, 4 schedulers, 6 window specifications incl. numpy/scipy Kaiser callables and a custom callable, 4 orders, Numba/NumPy (+CUDA-simulator) backends, 3 overlaps, 2 (Jdes,Kdes), bmin, Lmin, auto/cross, 2-3 records): every bin of every result is compared with a longdouble reference estimator evaluated at the plan's own f, L, D with an independently built window; every bin is re-requested as a single-bin analysis (L= and fres=); every pair of band edges from a stated set is checked against the in-band slice.",
            "small N (16..64, thorough to 257); reference Kaiser window from the I0 definition with the published alpha(psll) polynomial",
            "bounded exhaustive configuration/input enumeration against a reference model", "DESIGN.md §4 C05"),
    "C06": (E1,
            "One calibration case on the NumPy backend with 1535 x 65536 gathered samples; L=70001. Sinusoid calibration over the full lattice L=16..128 (every integer) x bin position x phase x amplitude x psll x fs x order x N through compute_single_bin; scaling and fs-relabelling laws on an analysis lattice with 4 scale factors on x, y, both and 5 relabelling factors.",
            "tolerance 2r+r^2 (+rounding) with r the side-lobe level that C12 establishes; scaling laws to derived rounding tolerance",
            "bounded exhaustive configuration/input enumeration with an analytic oracle", "DESIGN.md §4 C06"),
    "C07": (E1,
            "Kernel-level delays also at analysis frequencies with |sin w| < 1e-4. Full product N x record x 4 schedulers x Lmin x olap x window x order x backend x {3 gains, 3 delays}: Hxy = g and coh = 1 for pure gains; for delays Hxy equals the reference conj(X)Y/|X|^2 (which pins the conjugation on each backend separately) and, where the computed edge effect is small, the phase is negative and the magnitude ~1.",
            "physical clause (b) evaluated only where the reference says the edge effect is small for that record",
            "bounded exhaustive configuration/input enumeration against a reference model", "DESIGN.md §4 C07"),
    "C08": (E1,
            "Kernel level: L=1..12, every start set over {0,1,2}, all records over the alphabet for N<=4 and identifiable records beyond, the full 27-point trend-coefficient grid on x, y, both, orders 0..2, both modes, 3 backends: degree<=p leaves all five statistics unchanged within the rounding bound of the trended record, degree p+1 changes them by at least half of what the reference predicts. Analyzer level: the same on an analysis lattice.",
            "rounding bound evaluated for the trended record; CUDA under the simulator for L in {3,8}",
            "bounded exhaustive configuration/input enumeration, differential oracle (with/without trend) plus reference model", "DESIGN.md §4 C08"),
    "C09": (E1,
            "Conditioned-spectra identities also on degenerate bins and for the swapped pair (zero/constant channel first). Every x over {-2,0,1}^6 (+2 fixed samples; ^8 in thorough) x 8 partner constructions x 3 plans x 4 orders x 2 windows x 2 backends: coherence range, Schwarz inequality, coh=1 for K=1/dependent channels, swap symmetry, auto-vs-pair, GyyCx+GyyRx=Gyy, GyySx=Gyy(1-coh) on every bin.",
            "identities demanded to 1e-9 relative plus derived rounding tolerance; bins below 1e6x rounding are excluded from equalities",
            "bounded exhaustive input enumeration with algebraic invariants", "DESIGN.md §4 C09"),
    "C10": (E1,
            "The same relations on results that were plotted with 3-sigma error bands first. Directly constructed results over the full grid coherence(11) x n(8) x |XX|(3) x |YY|(3) x arg XY(4) x fs(2) x S2(2): every deviation and normalised error equals the reference Bendat-Piersol expression, deviation = estimate x error, dev*sqrt(n) constant, phase-error bounds and limit, degree form; analyzer results use the number of segment starts. The ensemble sentence is not claimed.",
            "statistical last sentence of the property is outside the family (DESIGN.md §6)",
            "bounded exhaustive grid enumeration against reference formulas", "DESIGN.md §4 C10"),
    "C11": (E1,
            "Constructed results in extreme units and after plot calls with error bands. Analysis lattice (3 N x 4 schedulers x 3 windows x 4 orders x 2 backends x 3 overlaps x 3 (Jdes,Kdes) x auto/cross x 2 records): per bin XY_M2 equals the reference population variance of the per-segment cross products, var = M2/K, dev = sqrt, spectral units factor 2/(fs sum w^2), zero for single segments, non-negative, inapplicable one None; constructed-result grid.",
            "statistical last sentence not claimed (DESIGN.md §6)",
            "bounded exhaustive configuration enumeration against a reference model", "DESIGN.md §4 C11"),
    "C12": (E1,
            "L=2^18 with a structured offset set (P=195, 200). Odd segment lengths 65/129/251 in the quick tier. P in 40..200 step 20 x L in 64..256 (step 8 quick, every integer + 512/1024/4096 thorough) x 3 line positions x 2 phases x every quarter-bin analysis offset beyond the main lobe up to DC and Nyquist, through compute_single_bin: single complex line via the cos/sin channel pair (threshold P-1 dB) and the real sinusoid (two lines, P-7.5 dB).",
            "offsets on a quarter-bin grid; float64 dynamic range margin reported per P",
            "bounded exhaustive configuration enumeration with an analytic threshold", "DESIGN.md §4 C12"),
    "C13": (E1,
            "Magnitude alphabet includes 1e-157 (subnormal mean squares); untouched-input part with tiling segmentations. Containers include object-dtype arrays and lists with None. N=8: all 255 position subsets x 4 non-finite kinds x channel choice x 8 containers (+5 one-channel containers): result equals the zero-filled record's and the caller's bytes are unchanged; containers x 5 dtypes x shapes give the float64 result; every x in {-2,0,1}^6(+2) x 10 partners x scales 1e-150/1/1e150 x 4 orders x auto/cross x full/single-bin: all densities, coherences, transfer functions finite, error bars finite where coh>0.",
            "magnitude alphabet keeps the densities representable; cf_db=-inf at cf=0 is by definition",
            "bounded exhaustive input enumeration with differential and finiteness oracles", "DESIGN.md §4 C13"),
    "C14": (E3,
            "Separate processes with different configured thread counts and their own kernel caches (K up to 2^18+3); plot calls among the result operations; band+scheduler pair configurations. Parallel region captured through any number of compiled helper levels; a schedule's outcome is the returned value and the final contents of all array arguments; a worker process that dies inside the library is reported as a violation. Pair histories include order=1. Schedules: all six prange kernels and all six CUDA kernels are lifted from the working tree's source (one generator per loop iteration / CUDA thread, scheduling points at every access to a shared-mutable array) and every interleaving is enumerated: K=2 and K=3 without a preemption bound (34650 schedules per kernel at K=3), repeated starts with bound 2; one outcome, bitwise equal to the in-order run; every output slot written once. Conformance: compiled kernels under threads 1..16 x 7 chunk sizes x 7 segment counts x repetitions are bitwise equal to one thread and equal to the lifted in-order run. Histories: BFS over plan/compute/compute_single_bin sequences on one analyzer (depth 4 merged, depth 3 unmerged) and over every order of first attribute access on a result (depth 2; 3 thorough).",
            "each iteration its own thread (superset of every worker/chunk assignment); native thread timing not controlled, bound to the model by the conformance sweep; CUDA device scheduling not covered",
            "stateless schedule exploration (preemption-bounded DFS over the lifted kernel source) + explicit-state BFS over operation histories", "DESIGN.md §3.3, §4 C14"),
    "C15": (E1,
            "Inputs as int64/int32/float32/lists/mixed/read-only give the float64 residual. q=1..3 (4 thorough) inputs on N=600 records: every coefficient vector over {-1,2,.5}^q as an exact static combination and with an independent record added, every permutation, every invertible 2x2 mixing matrix over {-1,0,1,2} (fixed set of 12 for q>=3), numeric and analytic solvers, q=1 delays {0,1,3} x gain sign: range, zero residual, invariances, solver agreement, SISO = sqrt(Gyy(1-coh)) on every bin with K>q.",
            "power-level tolerance 1e-7*S00 (observed 5e-15); records are the identifiable set",
            "bounded exhaustive configuration enumeration with differential and algebraic oracles", "DESIGN.md §4 C15"),
    "C16": (E1,
            "Long records (N=70000..600000, orders 3/7/31/111, ramp^2 / 1e13 glitch / identifiable) with a per-stencil rounding allowance. lagrange_taps against exact rational Lagrange weights for all 56 odd orders x 18 fractional parts; timeshift for orders {1,3,5,7,31,111} (all 56 thorough) x N in 2..12,p+5,3p+7 x every integer shift in [-N-3,N+3] x fractional shifts x records incl. polynomials of every degree <= min(p,7): displacement with held ends, identity, interior-sample value = exact polynomial interpolation, polynomial reproduction, constant-vs-vector path agreement; df_timeshift option product.",
            "interior = whole stencil inside the record; tolerance scaled by the stencil's Lebesgue constant",
            "bounded exhaustive configuration/input enumeration against an exact-arithmetic reference", "DESIGN.md §4 C16"),
    "C17": (E2,
            "One request of 2^24+1000 samples. BFS over all histories of get_series(n), n in {0,1,2,3,5}, total <= 12 (20 thorough), on 13 generator configurations x 3 seeds, objects rebuilt from the history, states merged by a hash of the complete object state; plus the same search without merging for total <= 6 (9). Every block equals the corresponding slice of one long request from a twin (exact), and the state after t samples is chunking independent. get_sample runs across the 4096 buffer boundary; the filter cascade against scipy's direct-form sections on every input over {-2,0,1}^n (n<=6) and every split point.",
            "seeds/parameters outside the stated set not covered; equal state hash => equal futures (hash covers vars() recursively)",
            "explicit-state BFS over operation histories on the real objects", "DESIGN.md §3.2, §4 C17"),
    "C18": (E1,
            "Band-limited noise of 2^20 and 2^20+1 samples and at sampling rates 1e-6 / 1e6. alpha in {0.01..2.0} (10 values) x 12 (fs,fmin,fmax) triples: analytic response of the object's own filter coefficients within 1 dB of f^-alpha on 400 points a factor 3 inside the corners; white rms^2 = psd*fs; fftnoise for every magnitude vector over {0,1,2.5} for N=2..14 (16 thorough) x 3 phase patterns x 3 seeds; band_limited_noise for samples 2..40 x every band-edge pair on and between grid points.",
            "corner regions (within a factor 3 of the effective corners) excluded as the property says 'between' the corners",
            "bounded exhaustive configuration/input enumeration with analytic oracles", "DESIGN.md §4 C18"),
    "C19": (E1,
            "Chained frame with colliding column names. RMS integration on grids in nano- and mega-hertz units; get_rms for fs=4e-7. polynomial_detrend on every record over {-2,0,1}^n (n<=7; 8 thorough) and identifiable records of 30/200 samples x orders 0..5: orthogonality to all monomials of degree<=p, polynomials to zero, idempotence; df_detrend option product; integral_rms on uniform/log/irregular grids of 2..6 (8) points x every ASD over {0,1,2.5}^n x every band over grid points, midpoints, +-inf: trapezoid value, additivity at grid-point splits, monotonicity under nesting; get_rms incl. reversed bands.",
            "the 'few percent of the time-domain RMS for broadband data' clause is statistical and not claimed (DESIGN.md §6)",
            "bounded exhaustive input enumeration against a reference model", "DESIGN.md §4 C19"),
    "C20": (E2,
            "Plot calls are operations of the history explorer; results with channels 160 decades apart and in nano-/mega-hertz units. E1: 8 results from real analyses (auto/cross x ragged, equal-K, single-bin, Lmin=N) + constructed results: every public attribute against the documented function of the raw fields or None; get_measurement at grid, fractional, outside points, scalar/array, for every array-valued name; to_dataframe columns/index/values. E2: BFS over histories (depth 2; 3 thorough) over the full alphabet {read any attribute, 3 interpolated reads, to_dataframe, copy, deepcopy, pickle protocols 2-5} on objects rebuilt from the history: values returned and every attribute read afterwards equal a fresh result's (bitwise), cached entries unchanged, raw data unchanged.",
            "fresh value = first read on a newly constructed result with the same raw fields",
            "explicit-state BFS over operation histories + bounded exhaustive relation table", "DESIGN.md §3.2, §4 C20"),
}

NOT_YET = "check under construction in this round; not claimed yet"


def main():
    props = [json.loads(l)["id"] for l in open(os.path.join(ROOT, "properties.jsonl"))]
    have = [p for p in props if p in CHECKS and os.path.exists(os.path.join(ROOT, "checks", p.lower() + ".py"))]
    engines = {}
    for p in have:
        engines.setdefault(CHECKS[p][0], []).append(p)
    kinds = {
        E1: "full product enumeration of a bounded input/configuration space on the real code against a reference model written from the property text",
        E2: "breadth-first exploration of operation histories on real objects with canonical state hashing and per-transition invariants",
        E3: "stateless, preemption-bounded exploration of all interleavings of the prange/CUDA loop bodies lifted from the kernels' own source, plus conformance replay on the compiled kernels",
    }
    paths = {E1: "mc/framework.py", E2: "mc/histories.py", E3: "mc/schedules.py"}
    m = {
        "version": 1,
        "setup_cmd": "/venv/bin/python /verif/mc/setup.py",
        "hooks": {
            "guard": "SPECKIT_VERIF",
            "enable": "no source hooks are needed: every observation point is public API, a return value, or kernel source reachable through py_func",
            "baseline_off_cmd": "cd /repo && /venv/bin/python -m pytest -ra -q -p no:cacheprovider --timeout=900 --continue-on-collection-errors",
            "source_commits": [],
            "add_only": True,
        },
        "engines": [{"name": e, "path": paths[e], "serves_properties": ps, "kind_free_text": kinds[e]}
                    for e, ps in engines.items()],
        "checks": [
            {
                "property_id": p,
                "quick_cmd": f"./check {p} --tier quick",
                "thorough_cmd": f"./check {p} --tier thorough",
                "evidence_file": f"/verif/evidence/{p}.json",
                "replay_cmd_template": f"./check {p} --replay {{path}}",
                "engine": CHECKS[p][0],
                "level_claimed": {"category": "model_checking", "text": CHECKS[p][1], "design_ref": CHECKS[p][4]},
                "level_note": CHECKS[p][2],
                "technique": CHECKS[p][3],
            }
            for p in have
        ],
        "not_applicable": [{"property_id": p, "reason": NOT_YET} for p in props if p not in have],
        "notes": "Approach, bounds, findings and seeded-change results: DESIGN.md. Known/fixed findings: known_findings.json.",
    }
    with open(os.path.join(ROOT, "MANIFEST.json"), "w") as f:
        json.dump(m, f, indent=1)
        f.write("\n")
    print("claimed:", have)


if __name__ == "__main__":
    main()
