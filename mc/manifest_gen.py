"""Generates /verif/MANIFEST.json from the table below (run: python3 mc/manifest_gen.py)."""
import json
import os

ROOT = "/verif"
E1 = "E1-bounded-exhaustive-enumeration"
E2 = "E2-history-exploration"
E3 = "E3-schedule-exploration"

# property -> (engine, level text, level note, technique, design_ref)
CHECKS = {
    "C01": (E1,
            "Every record over the alphabet {-2,0,1}^L (L<=4 quick, <=5 cross / <=7 auto thorough), every ordered start sequence on a 7-sample record, all windows/frequencies/orders in the stated lattice are run through the real Numba, NumPy and CUDA-simulator kernels and compared with a longdouble evaluation of the defining sum; no sampling.",
            "small-scope: alphabet {-2,0,1}, identifiable records, L<=7 (long L only in thorough part C); CUDA = core_cuda.py under numba's simulator; tolerance is a derived rounding bound of the recurrence",
            "bounded exhaustive input enumeration against a reference model (explicit-state, no sampling)", "DESIGN.md §4 C01"),
    "C02": (E1,
            "Full product of a configuration lattice (every N in 8..40/64 plus large N, 8 overlaps incl. 0.9/0.99, all clamp-activating bmin/Lmin, 7-8 Jdes, 5 Kdes, 3-4 fs) for all four schedulers, each called directly and through SpectrumAnalyzer.plan(); every bin of every plan is checked against the segmentation predicates.",
            "configurations off the lattice are not covered; admissibility filter is the property's quantifier",
            "bounded exhaustive configuration enumeration with per-state invariants", "DESIGN.md §4 C02"),
    "C03": (E1,
            "Same lattice; per-plan invariants r*L=fs, f[j+1]=f[j]+r[j], f[0]=bmin*fs/N, monotone, below Nyquist, b=f/r=f*L/fs, lower bound on b with the two slacks the property names, lpsd == ltf(bmin=1,Lmin=1).",
            "float comparisons at 4-16 ulp; slack for b derived from half-sample rounding of L and the lookup-grid ratio",
            "bounded exhaustive configuration enumeration with per-state invariants", "DESIGN.md §4 C03"),
    "C04": (E1,
            "Same lattice with the C04 predicates (monotone L/navg, log spacing and Kdes where a reference decision procedure says no clamp is active, nearest-integer navg with cap, even spreading, realised overlap, vectorised-vs-iterative bin count) plus every force_target_nf target in 100..400 for each scheduler.",
            "'no clamp active' decided by a reference procedure written from the documented targets; ties accepted either way",
            "bounded exhaustive configuration enumeration with per-state invariants", "DESIGN.md §4 C04"),
}

NOT_YET = "check under construction in this round; not claimed yet"


def main():
    props = [json.loads(l)["id"] for l in open(os.path.join(ROOT, "properties.jsonl"))]
    have = [p for p in props if p in CHECKS and os.path.exists(os.path.join(ROOT, "checks", p.lower() + ".py"))]
    engines = {}
    for p in have:
        engines.setdefault(CHECKS[p][0], []).append(p)
    kinds = {
        E1: "full product enumeration of a bounded input/configuration space on the real code against a reference model written from the property text",
        E2: "breadth-first exploration of operation histories on real objects with canonical state hashing and per-transition invariants",
        E3: "stateless, preemption-bounded exploration of all interleavings of the prange/CUDA loop bodies lifted from the kernels' own source, plus conformance replay on the compiled kernels",
    }
    paths = {E1: "mc/framework.py", E2: "mc/histories.py", E3: "mc/schedules.py"}
    m = {
        "version": 1,
        "setup_cmd": "/venv/bin/python /verif/mc/setup.py",
        "hooks": {
            "guard": "SPECKIT_VERIF",
            "enable": "no source hooks are needed: every observation point is public API, a return value, or kernel source reachable through py_func",
            "baseline_off_cmd": "cd /repo && /venv/bin/python -m pytest -ra -q -p no:cacheprovider --timeout=900 --continue-on-collection-errors",
            "source_commits": [],
            "add_only": True,
        },
        "engines": [{"name": e, "path": paths[e], "serves_properties": ps, "kind_free_text": kinds[e]}
                    for e, ps in engines.items()],
        "checks": [
            {
                "property_id": p,
                "quick_cmd": f"./check {p} --tier quick",
                "thorough_cmd": f"./check {p} --tier thorough",
                "evidence_file": f"/verif/evidence/{p}.json",
                "replay_cmd_template": f"./check {p} --replay {{path}}",
                "engine": CHECKS[p][0],
                "level_claimed": {"category": "model_checking", "text": CHECKS[p][1], "design_ref": CHECKS[p][4]},
                "level_note": CHECKS[p][2],
                "technique": CHECKS[p][3],
            }
            for p in have
        ],
        "not_applicable": [{"property_id": p, "reason": NOT_YET} for p in props if p not in have],
        "notes": "Approach, bounds, findings and seeded-change results: DESIGN.md. Known/fixed findings: known_findings.json.",
    }
    with open(os.path.join(ROOT, "MANIFEST.json"), "w") as f:
        json.dump(m, f, indent=1)
        f.write("\n")
    print("claimed:", have)


if __name__ == "__main__":
    main()
