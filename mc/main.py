"""Entry point: ./check <ID> [--tier quick|thorough] [--replay file]"""
import argparse
import os
import sys

sys.path.insert(0, os.environ.get("VERIF_ROOT") or os.path.dirname(os.path.dirname(os.path.abspath(__file__))))
from mc import framework as fw  # noqa: E402


def main():
    ap = argparse.ArgumentParser()
    ap.add_argument("prop")
    ap.add_argument("--tier", default=os.environ.get("VERIF_TIER", "quick"),
                    choices=["quick", "thorough"])
    ap.add_argument("--replay", default=None)
    ap.add_argument("--seed", type=int, default=None)
    args = ap.parse_args()
    seed = args.seed
    if seed is None:
        try:
            seed = int(os.environ.get("VERIF_SEED", "0"))
        except ValueError:
            seed = 0
    fw.pin_env("1")
    import importlib

    mod = importlib.import_module("checks." + args.prop.lower())
    if args.replay:
        rc = fw.drive_replay(mod, args.replay)
    else:
        rc = fw.drive(mod, args.tier, seed)
    sys.stdout.flush()
    sys.exit(rc)


if __name__ == "__main__":
    main()
