"""MANIFEST.setup_cmd: verifies the offline environment and warms the Numba cache
for the current /repo sources (the checks would do it themselves otherwise)."""
import sys

import os
sys.path.insert(0, os.environ.get("VERIF_ROOT") or os.path.dirname(os.path.dirname(os.path.abspath(__file__))))
from mc import framework as fw

fw.pin_env("1")
import numpy as np

from mc import kern

x = np.linspace(0.0, 1.0, 16)
st = np.array([0, 4], dtype=np.int64)
w = np.ones(8)
for cross in (False, True):
    for order in (-1, 0, 1, 2):
        kern.get_kernel("numba", cross, order)(x, x[::-1].copy(), st, 8, w, 0.7)
from speckit import noise

noise.alpha_noise(10.0, 0.1, 1.0, 1.0, init_filter=False, seed=1).get_series(4)
print("setup ok: numba cache at", __import__("os").environ["NUMBA_CACHE_DIR"])
