#!/usr/bin/env python3
"""tools/confirm_seed.py <src_dir> <letter> <seed_id> <property>
Confirms an independently written seeded change in its own scratch worktree (outside /repo and /verif):
 1. the diff applies to a clean tree of /repo's HEAD, 2. the unedited test-suite still passes with it,
 3. the demonstration fails with it and 4. passes without it.  Then stores it under /verif/seeded/<seed_id>/."""
import json
import os
import re
import shutil
import subprocess
import sys

src, letter, sid, prop = sys.argv[1:5]
ROOT = os.path.dirname(os.path.dirname(os.path.abspath(__file__)))
wt = f"/tmp/confirm_{sid}"
env = dict(os.environ, NUMBA_NUM_THREADS="4", PYTHONPATH=wt)


def sh(cmd, **k):
    return subprocess.run(cmd, shell=True, capture_output=True, text=True, **k)


sh(f"git -C /repo worktree remove --force {wt}")
r = sh(f"git -C /repo worktree add --detach {wt} HEAD -q")
assert r.returncode == 0, r.stderr
rec = {"seed_id": sid, "property": prop, "source": f"{src}/mut{letter}.diff"}
try:
    patch = os.path.join(src, f"mut{letter}.diff")
    demo = os.path.join(src, f"demo{letter}.py")
    r = sh(f"git -C {wt} apply {patch}")
    rec["applies"] = r.returncode == 0
    if not rec["applies"]:
        rec["error"] = r.stderr[-500:]
    else:
        t = sh(f"cd {wt} && /venv/bin/python -m pytest -q -p no:cacheprovider --timeout=900 tests 2>&1 | tail -3", env=env)
        m = re.search(r"(\d+) passed", t.stdout)
        rec["tests_with_change"] = t.stdout.strip().splitlines()[-1] if t.stdout.strip() else ""
        rec["tests_pass_with_change"] = bool(m and int(m.group(1)) == 99 and "failed" not in t.stdout)
        shutil.copy(demo, os.path.join(wt, "_demo_run.py"))  # run from inside the worktree so that `import speckit` is the worktree's
        d1 = sh(f"cd {wt} && /venv/bin/python _demo_run.py", env=env)
        rec["demo_rc_with_change"] = d1.returncode
        rec["demo_out_with_change"] = (d1.stdout + d1.stderr)[-600:]
        sh(f"git -C {wt} checkout -- . && git -C {wt} clean -fdq")
        shutil.copy(demo, os.path.join(wt, "_demo_run.py"))
        d0 = sh(f"cd {wt} && /venv/bin/python _demo_run.py", env=env)
        rec["demo_rc_clean"] = d0.returncode
    rec["confirmed"] = bool(rec.get("applies") and rec.get("tests_pass_with_change") and rec.get("demo_rc_with_change", 0) != 0
                            and rec.get("demo_rc_clean", 1) == 0)
    if rec["confirmed"]:
        dst = os.path.join(ROOT, "seeded", sid)
        os.makedirs(dst, exist_ok=True)
        shutil.copy(patch, os.path.join(dst, "patch.diff"))
        shutil.copy(demo, os.path.join(dst, "demo.py"))
        notes = os.path.join(src, "NOTES.md")
        if os.path.exists(notes):
            shutil.copy(notes, os.path.join(dst, "AUTHOR_NOTES.md"))
        meta_p = os.path.join(dst, "meta.json")
        meta = json.load(open(meta_p)) if os.path.exists(meta_p) else {}
        meta.update({"seed_id": sid, "breaks_property": prop, "confirmation": {
            "ran": ["git apply patch.diff (scratch worktree of /repo HEAD under /tmp)",
                    "pytest -q -p no:cacheprovider --timeout=900 tests  -> " + rec["tests_with_change"],
                    f"python demo.py with the change -> exit {rec['demo_rc_with_change']}",
                    f"python demo.py on the clean tree -> exit {rec['demo_rc_clean']}"]}})
        json.dump(meta, open(meta_p, "w"), indent=1)
finally:
    sh(f"git -C /repo worktree remove --force {wt}")
print(json.dumps(rec))
