#!/usr/bin/env python3
"""Writes /verif/seeded/<id>/meta.json from the table below (merging the confirmation record written by
tools/confirm_seed.py) and prints the catches table for DESIGN.md."""
import json
import os

ROOT = os.path.dirname(os.path.dirname(os.path.abspath(__file__)))
T = {
 # id: (property, what, needs, caught_by (checks run with the change applied), note)
 "C01a": ("C01", "_stats_poly_csd_np keeps running sums per chunk; scatter about each chunk's own mean (between-chunk term lost)", "numpy backend, cross, order 1/2, segments spanning more than one chunk", ["C01"], ""),
 "C01b": ("C01", "Numba poly kernels skip window taps that are exactly 0 (and the recurrence step with them)", "numba, order 1/2, a window with an exact zero in its interior", ["C01", "C05", "C08"], "missed at first: no window of the alphabet had an interior zero -> window 'gapneg' (zeros and negative taps) added to C01/C05/C08"),
 "C02a": ("C02", "ltf_plan second loop uses round(x)+1 instead of round_half_up(x+1)", "a bin exactly on the tie N-L=(1-olap)L/2 -> K=1 with L<N", ["C02"], ""),
 "C02b": ("C02", "new_ltf_plan: N-L+1 cap moved into the loop, not applied after the bmin branch recomputes nseg", "bmin branch taken and (1-olap)L<1: duplicate starts", ["C02", "C04"], ""),
 "C03a": ("C03", "new_ltf_plan skips the bmin check in stage 3", "stage 3 reached while f*Lmin/fs < bmin", ["C03"], ""),
 "C03b": ("C03", "vectorized_ltf_plan memoises its lookup maps under a key without fs", "two calls in one process with equal settings and different fs", ["C03", "C14"], "deterministic only after the process-level pair histories (mc/pairhist.py) were added"),
 "C04a": ("C04", "find_Jdes_binary_search caches bin counts under a key without Kdes", "two forced searches in one process differing in Kdes only", ["C04", "C14"], "needs the pair histories"),
 "C04b": ("C04", "ltf_plan reports overlap floored at 0", "low requested overlap with gaps between segments (negative realised overlap)", ["C04"], ""),
 "C05a": ("C05", "process-wide window cache keyed by (window name, L): psll / callable ignored", "an earlier analysis in the process with the same L and a same-named different window", ["C05", "C14"], "needs the pair histories"),
 "C05b": ("C05", "compute_single_bin takes omega from freq/final_fres/segL", "single-bin request by fres with fs/fres not an integer", ["C05"], "missed at first: single-bin requests were only made with fres=r[j] -> off-grid fres and off-grid (freq, L) requests added"),
 "C07a": ("C07", "_stats_poly_csd_np back to exp(+iwn)", "numpy backend, order 1/2, cross, complex transfer function", ["C07", "C01"], ""),
 "C07b": ("C07", "CUDA detrend0 csd kernel accumulates the second mean from channel 1", "cuda backend, order 0, cross, gain != 1 / offset", ["C07", "C01", "C08"], ""),
 "C14a": ("C14", "_stats_poly_csd: alpha1/alpha2 scratch buffers hoisted out of the prange loop and filled in place", ">= 2 threads, cross, order 1/2; bit-identical with one thread", ["C14"], "found by the schedule explorer at preemption bound 1 (2 outcomes over 6 schedules, racy locations alpha1[0..2], alpha2[0..2]) and by the native conformance sweep"),
 "C14b": ("C14", "window cache shared between compute() and compute_single_bin() with inconsistent tuple layout (S1 vs S1^2)", "compute then single-bin with an L of the plan (or the reverse) on one analyzer", ["C14", "C05"], ""),
 "C14c": ("C14", "ps / cs computed with an in-place multiply on the cached Gxx / Gxy array", "read ps (or cs) before another attribute", ["C14", "C20"], ""),
 "C17a": ("C17", "settled filter state memoised per constructor arguments, stored by reference and mutated in place by the cascade", "alpha/pink noise, init_filter=True, second same-seed instance built after the first produced samples", ["C17"], ""),
 "C17b": ("C17", "white_noise.get_series(1) served from the 4096-sample prefetch buffer", "a block of exactly one sample followed by a block of another size", ["C17"], ""),
 "C06a": ("C06", "ENBW computed as NENBW*r (requested resolution) instead of fs*S2/S1^2", "single-bin request by fres with fs/fres not an integer", [], ""),
 "C06b": ("C06", "Hxy/coh/ccoh guards '> eps' instead of '!= 0'", "a channel in tiny units (|X|^2 < 2.2e-16)", [], ""),
 "C08a": ("C08", "_build_Q lowers the polynomial degree for L <= order+1", "order 1/2 and very short segments", [], ""),
 "C08b": ("C08", "scalar-unrolled Numba poly kernels: channel 2 quadratic term uses channel 1's coefficient", "numba, cross, order 2, different quadratic content in the channels", [], ""),
 "C09a": ("C09", "K==1 fast path in _reduce_stats_nb returns MYY = MXX", "numba, cross, single-segment bin, channels of different power", [], ""),
 "C09b": ("C09", "GyySx 'simplified' to |Gyy - |Gxy|^2/Gxx| (squares before dividing)", "amplitudes below 1e-75 or above 1e77", [], ""),
 "C10a": ("C10", "Gxy_dev as sqrt(Gxx*Gyy/navg)", "estimates of extreme magnitude (product leaves the float range)", [], ""),
 "C10b": ("C10", "compute_single_bin de-duplicates starts but keeps the planned navg", "single-bin with (1-olap)L < 1", [], ""),
 "C11a": ("C11", "one-pass variance mean|z|^2-|mean z|^2 in _reduce_stats_nb", "numba, records with low relative scatter (offset, strong line)", [], ""),
 "C11b": ("C11", "_stats_poly_csd_np chunk-wise scatter (as C01a)", "numpy, cross, order 1/2, > one chunk", [], ""),
 "C12a": ("C12", "process-wide window cache keyed by (win_func, L) ignoring psll, full path only", "lower psll analysed first, same L, same process, compute() path", [], ""),
 "C12b": ("C12", "kaiser_alpha uses the FIR-design formula below 50 dB", "psll in [40,50)", [], ""),
 "C13a": ("C13", "in-place sanitising decided by 'self.data is x'", "Fortran-ordered Nx2 float64 input with a non-finite sample (also read-only)", [], ""),
 "C13b": ("C13", "_gather_segments returns a slice view for a single segment", "numpy backend, K==1 bin, order 0: caller's finite data de-meaned in place; read-only raises", [], ""),
 "C15a": ("C15", "Sum3 reads T_ij instead of T_ji in both solvers", "q>=2, inputs mutually correlated with a relative delay, couplings with different phases", [], ""),
 "C15b": ("C15", "numeric solver: pinv with rcond=1e-8 above cond 1e8", "input amplitudes differing by > 1e4 or nearly collinear inputs", [], ""),
 "C16a": ("C16", "closed-form halfp==2 taps with the two outer taps swapped", "order 3, fractional part not 0 or 0.5", [], ""),
 "C16b": ("C16", "df_timeshift dtype gate accepts float columns only", "a selected integer/bool column", [], ""),
 "C18a": ("C18", "alpha_noise upper corner taken from the pole array (scaling pegged to it)", "alpha >= ~1", [], ""),
 "C18b": ("C18", "fftnoise makes bin N//2 real for odd N too", "odd N with non-zero magnitude at bin (N-1)/2", [], ""),
 "C19a": ("C19", "get_rms re-implemented with searchsorted side='right' for both edges", "lower band edge exactly on a grid frequency", [], ""),
 "C19b": ("C19", "df_detrend(inplace=True) casts back to the column dtype", "integer column, inplace=True", [], ""),
 "C20a": ("C20", "get_measurement complex branch: bracket index clipped to n-2", "single-bin cross result, complex quantity, query at the bin frequency", [], ""),
 "C01c": ("C01", "NumPy fallbacks gather segments through a helper that caps each block at 2^20 samples; segments beyond the cap stay uninitialised", "numpy backend and a bin with K*L > 2^20", [], "scale-dependent: needed the large-bin part D of C01 (K=300 x L=4096, K=33000 x L=40)"),
 "C01d": ("C01", "_build_Q uses column-normalised Legendre polynomials (not orthogonal on the discrete grid)", "order 2 with non-negligible mean/quadratic content or short L", [], ""),
 "C04c": ("C04", "force_target_nf for N>=50000 runs the Jdes search on the vectorised scheduler as a stand-in for ltf/lpsd", "N>=50000, ltf/lpsd, one of the few targets where the two schedulers differ by one bin", [], "scale-dependent: needed forced targets at N=60000"),
 "C04d": ("C04", "olap=0 treated as 'default' (falsy-zero slip) in the analyzer's window configuration", "exactly olap == 0 through SpectrumAnalyzer", [], "needed the analyzer plan to be compared with the direct scheduler call in C04/C02"),
 "C05c": ("C05", "compute() processes the plan in blocks of 1024 bins and reads the analysis frequency with the block-local index", "a plan with more than 1024 bins", [], "scale-dependent: needed the >2000-bin plan case in C05"),
 "C05d": ("C05", "module-level window cache keyed by (win_name, alpha, L): all custom callables collide", "an earlier compute() in the process with another custom window callable and the same L", [], ""),
 "C12c": ("C12", "windows stored as float32", "Kaiser psll above ~165 dB and > 165 dB of dynamic range", [], ""),
 "C16c": ("C16", "df_timeshift rounds seconds*fs to 6 decimals", "a shift with digits beyond the sixth decimal, or |shift| < 5e-7", [], "needed many-decimal and tiny shifts in the DataFrame part"),
 "C16d": ("C16", "df_timeshift snaps seconds*fs to the nearest integer under np.isclose (rtol scales with the shift)", "a large shift with a small fractional part", [], "needed a long frame with shifts like 2000.01"),
 "C17c": ("C17", "settled filter state cached per (class, seed, parameters) by reference (as C17a)", "second same-seed alpha/pink generator built after the first produced samples", [], ""),
 "C17d": ("C17", "get_sample walks a read index and refills one sample early: the last sample of every 4096 block is never delivered", "more than 4095 consecutive get_sample() calls", [], ""),
 "C20c": ("C20", "to_dataframe caches the list of exportable column names in a class attribute on the first export of the process", "two exports in one process, the poorer kind first", [], "needed DataFrame exports in the two-result histories"),
 "C20d": ("C20", "cf_deg_unwrapped = np.unwrap(cf_deg, discont=180) (period still 2*pi)", "a transfer phase that wraps between neighbouring bins", [], "needed a result with a delayed channel (phase wraps)"),
 "C20e": ("C20", "alias table psd/G -> Gxx resolved before the None gate", "psd or G read from a two-channel result", [], ""),
 "C02c": ("C02", "vectorized_ltf_plan clips L to [Lmin,N] after the single-segment rule", "Lmin clamp active with Lmin > ~0.8 N: K=1 with L=Lmin<N", [], "needed Lmin in {ceil(.9N), N-1} on the lattice"),
 "C03c": ("C03", "ltf_plan loops while fi <= fmax", "f[-1]+r[-1] landing exactly on fs/2 (dyadic N, small Jdes)", [], ""),
 "C10c": ("C10", "Hxy_deg_error = rad2deg(Hxy_mag_error)", "coherence below 1 and a reader of the degree error", [], ""),
 "C19c": ("C19", "polynomial_detrend evaluates the trend with an int64 Vandermonde matrix (overflow)", "order 5 with >= 6210 samples, order 4 with >= 55110", [], "scale-dependent: needed records of 7000 and 60000 samples"),
 "C01e": ("C01", "_stats_poly_csd_cuda computes the block count for 256 threads but launches 128 per block", "cuda, cross, order 1/2, more than 128 segments", [], "caught by the K=300 CUDA wrapper case (part D)"),
 "C07c": ("C07", "CUDA cross wrappers reuse the first device array when np.shares_memory(x1, x2)", "kernel-level call with two distinct overlapping views of one buffer (delayed copy)", [], "needed channels that are overlapping views of one buffer (C01 part V)"),
 "C08c": ("C08", "compute_single_bin dispatch table: (no detrend, cross, NumPy) cell points to the mean-removal kernel", "compute_single_bin, two channels, order -1, backend numpy", [], "needed the single-bin sub-lattice of C05 to cover cross mode (diagonal instead of every-8th)"),
 "C05e": ("C05", "with force_target_nf and a band the Jdes search counts only in-band bins", "force_target_nf=True together with band", [], "needed the force+band cases in C05"),
 "C04e": ("C04", "Jdes search rewritten as lower-bound bisection accepting any plan with at least the target count", "a target below the bin count of the smallest admissible Jdes", [], "needed small forced targets (5..95)"),
 "C14d": ("C14", "compute_single_bin reuses the cached plan's starts for a matching L", "ltf/lpsd, L of the plan with a half-sample tie in the starts, single-bin before and after compute()", [], "needed single-bin ops on bins with half-sample ties in C14-H"),
 "C15c": ("C15", "absolute machine-epsilon diagonal loading of the input spectral matrix in the numeric solver", "input PSD around 1e-13 or below", [], "needed re-mixing by 1e-9*I"),
 "C19d": ("C19", "get_rms as a difference of a cached cumulative integral (catastrophic cancellation)", "steep red spectrum, band above most of the power", [], "needed doubly/triply integrated records in the get_rms part"),
 "C20f": ("C20", "get_measurement casts the interpolant to the tabulated dtype", "integer per-bin fields (L, K, navg) queried between grid points", [], ""),
 "C16e": ("C16", "lagrange_taps takes the 1-(d/j)^2 factors from a table that stops at j=50", "order >= 103 with a fractional shift", [], ""),
 "C17e": ("C17", "coloured generators derive their white-noise seed with hash() of a tuple containing a str (salted per process)", "two instances in different interpreter processes", [], "needed the cross-process part of C17"),
 "C19e": ("C19", "df_detrend collects results in a helper frame built without the original index", "a DataFrame whose index is not 0..n-1", [], "needed frames with float / datetime / shuffled / sliced indexes"),
 "C14e": ("C14", "CUDA host wrappers cache device copies of the input keyed by (host pointer, length)", "cuda backend, the same contiguous float64 buffer refilled in place and analysed again", [], "needed the in-place buffer refill histories of C14"),
 "C14f": ("C14", "plan() re-plans when a stored parameter signature differs; with force_target_nf the signature is taken before Jdes is overwritten", "force_target_nf=True and more than one plan()/compute() on one analyzer", [], ""),
 "C17f": ("C17", "cascade kernel processes 65536-sample blocks; the tail restarts from the state before the call", "one request (or cascade call) of n > 65536 samples, n not a multiple of 65536", [], "scale-dependent: needed the long-request part of C17"),
 "C20b": ("C20", "class-level default _cache plus __getstate__ dropping _cache: clones share one cache", "clones of two different results in one process", [], ""),
 "C02d": ("C02", "plan validation exempts LPSD from the Lmin test by resolved *name* == 'lpsd' instead of by function", "scheduler passed as the function lpsd_plan (name 'lpsd_plan') and an analyzer Lmin > 1", [], "missed at first: the analyzer route only named schedulers by string and ran lpsd with Lmin=1 -> callable form and configured-but-ignored Lmin/bmin added"),
 "C03d": ("C03", "new_ltf_plan bmin-enforcement branch truncates fs/fres instead of rounding", "new_ltf, bmin branch taken, fractional part of bmin*fs/f >= 0.5", [], ""),
 "C04f": ("C04", "bins with >= 65536 segments build starts with astype(int64) (truncation, the +0.5 forgotten)", "ltf/lpsd, N > 65536, high overlap, non-integer step", [], "scale-dependent: needed the N=200000, olap=0.9 spot shard of C04"),
 "C06c": ("C06", "window rescaled to unit peak after S1/S2 were taken", "odd segment lengths with the Kaiser window (peak tap < 1)", [], ""),
 "C07d": ("C07", "order-0 Numba kernels switch to a direct phasor sum with exp(+iwn) when |sin w| < 1e-4", "numba, cross, order 0, f/fs < 1.6e-5 (lowest bins of records of > 60000 samples)", [], "scale-dependent at analysis level; reached at kernel level by adding frequencies with |sin w| < 1e-4 to C01 and C07"),
 "C08d": ("C08", "_build_Q memoised per L only; an order-2 basis is served to a later order-1 request", "order-2 analysis followed by an order-1 analysis with a common L in one process", [], "C14 needed order=1 among the pair-history configurations"),
 "C09c": ("C09", "coh forced to exactly 1 where navg == 1, also where the guard had produced 0 (zero first channel)", "single-segment bin and a first channel that is exactly zero there", [], "missed at first: the conditioned-spectra identities were only evaluated for (x,y), never for the swapped pair (zero channel first), and only on well-conditioned bins"),
 "C10d": ("C10", "Hxy_rad_error = arcsin(sqrt(1-coh)) without abs", "coherence estimate rounding above 1 (linearly dependent channels)", [], ""),
 "C11c": ("C11", "empirical deviations scaled by 1/(fs*S2) instead of 2/(fs*S2) at f=0 and f>=fs/2", "compute_single_bin at DC or Nyquist", [], ""),
 "C12d": ("C12", "symmetric np.kaiser(L) instead of the DFT-even kaiser(L+1)[:-1]", "short segments, high psll, analysis frequency just past the main-lobe edge", [], ""),
 "C13c": ("C13", "non-finite scan skipped unless the incoming dtype is floating", "object-dtype arrays / lists with None, nan, inf", [], "missed at first: no object-dtype container in the layout alphabet -> added"),
 "C15d": ("C15", "q=1 analytic solution written directly as S01/T11 (conjugate cross-spectrum)", "one input, analytic solver, coupling with phase/delay", [], ""),
 "C16f": ("C16", "constant-shift path switches to scipy.signal.fftconvolve when (N+order)*(order+1) >= 2^24", "records of >= 524257 samples (order 31) with a large dynamic range", [], "scale-dependent: needed the long-record part of C16 with a per-stencil rounding allowance"),
 "C18c": ("C18", "band mask with strict inequalities plus np.isclose at the edges (default rtol/atol)", "bin spacing below 1e-5 x cutoff (series of ~1e6 samples)", [], "scale-dependent: needed 2^20-sample band-limited series"),
 "C19f": ("C19", "integral_rms fast path for 'uniform' grids decided by np.allclose(diff, diff[0]) (absolute 1e-8 Hz)", "non-uniform grids with spacings below 1e-8 Hz", [], "unit-dependent: needed the frequency grids in nano-hertz units"),

 "C01f": ("C01", "_gather_segments returns a reshaped view when the segments tile the record back to back; the order-0 NumPy kernels then remove the means in place, i.e. in the analyzer's record (and the caller's array)", "numpy backend, order 0, starts with diff == L, then any other bin on the same record", [], "C01 now notes every kernel call after which an input array has other bytes"),
 "C02e": ("C02", "plan() thins bins with more than 2^22 starts with arr[::step] (last start dropped when (K-1) % step != 0)", "analyzer plan with a bin of K > 2^22 (N > 2^22, L tiny)", [], "size-gated: needed the N=2^23+5 analyzer plan of C02"),
 "C03e": ("C03", "ltf_plan memoises its last 16 plans and returns the same dict object; plan() trims that dict in place for band=", "a band-limited ltf/lpsd analysis followed, in the same process, by an ltf/lpsd plan with the same seven numbers", [], "needed band+scheduler configurations in the pair histories"),
 "C05f": ("C05", "band mask replaced by searchsorted + slicing", "user-supplied scheduler whose grid is not ascending, with band=", [], "needed the user-scheduler band part of C05"),
 "C06d": ("C06", "NumPy kernels split K segments into 'balanced' blocks with rows = K // nblk when chunk*L > 2^25: the last K - nblk*rows slots stay uninitialised", "numpy backend, K*L > 2^25, K not a multiple of the block count", [], "size-gated: needed a K*L > 2^25 NumPy bin in C01 (odd K) and in C06"),
 "C08e": ("C08", "_build_Q does its QR in float32 for L > 2^23", "order 1/2, one segment of more than 8.4e6 samples, a trend 1e8 times the signal", [], "NOT caught: beyond the largest stated segment length, and the derived worst-case rounding allowance at L ~ 1e7 exceeds the effect (DESIGN 9.11)"),
 "C10e": ("C10", "plot(errors=True, sigma=k) scales the cached deviation array in place (err *= sigma)", "res.plot(which in psd/coh/csd/cf, errors=True, sigma != 1), then read the deviations", [], "needed plot calls as operations (C20/C14 histories) and after-plot grids in C10"),
 "C11d": ("C11", "plot(errors=True) writes the analytic fallback for single-segment bins into the cached Gxx_emp_dev", "auto result, plot(errors=True), then read Gxx_emp_dev", [], "needed plot calls as operations and after-plot constructed results in C11"),
 "C12e": ("C12", "Kaiser windows longer than 2^16 are interpolated from a 65537-point table (spurs of -185 dB at multiples of 65536 bins)", "L > 65536, psll > 186, analysis offset near m*65536 bins", [], "size-gated: needed the L=2^18 structured-offset probes of C12"),
 "C13d": ("C13", "the nan_to_num copy is skipped for backend='numpy' (kernels 'sanitise' with the default nan_to_num: inf -> 1.8e308)", "backend numpy and a +-inf sample", [], ""),
 "C14g": ("C14", "block-parallel reduction for K >= 2^18 omits the between-block scatter; block count = NUMBA_NUM_THREADS frozen at compile time", "K >= 2^18 and processes configured with different thread counts, each with its own kernel cache", [], "needed processes with different thread counts and separate caches (conf_procs)"),
 "C15e": ("C15", "records stacked into one block whose dtype comes from the inputs only: a float output is truncated when all inputs are integer-typed", "all inputs int/bool dtype, non-integer output", [], "needed the dtype/container invariance part of C15"),
 "C17g": ("C17", "white_noise.get_series(n >= 2^24) fills with four spawned child generators", "one request of >= 2^24 samples", [], "size-gated: needed the 2^24+1000 request of C17"),
 "C19g": ("C19", "df_detrend reads each column from the working copy instead of the input frame", "inplace=False and a selected column named <other selected column> + suffix", [], "needed the chained frame (x, x_detrended) in C19"),
 "C20g": ("C20", "cf_db = 10*log10(re^2 + im^2)", "|Hxy| above 1e154 or below 1e-162 (channels whose units differ by 160 decades)", [], "needed the unit-gap results of C20"),

}


def main():
    det = {}
    import re
    for logf in ("/root/scratch/wave1_detect.log", "/root/scratch/wave2_detect.log", "/root/scratch/wave3_detect.log", "/root/scratch/wave4_detect.log", "/root/scratch/manual_detect.log", "/root/scratch/wave5_final_detect.log", "/root/scratch/wave6_detect.log", "/root/scratch/wave6b_detect.log"):
        if not os.path.exists(logf):
            continue
        sid = None
        for line in open(logf):
            m = re.match(r"== /tmp/mut_(C\d+)/mut([A-Z])\.diff", line)
            if m:
                sid = m.group(1) + m.group(2).lower()
                continue
            m = re.match(r"== seed (\w+)", line)
            if m:
                sid = m.group(1)
                continue
            m = re.match(r"(C\d+): (CAUGHT|silent|ERROR)", line)
            if m and sid:
                det.setdefault(sid, {})[m.group(1)] = {"CAUGHT": "caught", "silent": "silent", "ERROR": "error"}[m.group(2)]
    rows = []
    for sid, (prop, what, needs, caught, note) in sorted(T.items()):
        d = os.path.join(ROOT, "seeded", sid)
        if not os.path.isdir(d):
            continue
        mp = os.path.join(d, "meta.json")
        meta = json.load(open(mp)) if os.path.exists(mp) else {}
        runs = det.get(sid, {})
        caught_by = sorted(k for k, v in runs.items() if v == "caught") or caught
        meta.update({"seed_id": sid, "breaks_property": prop, "what": what, "needs_to_manifest": needs,
                     "checks_run_against_it": runs, "caught_by": caught_by, "note": note,
                     "how_run": "python3 tools/mut.py seeded/%s/patch.diff <ids>  (git -C /repo apply; ./check <id>; git -C /repo checkout -- .)" % sid})
        json.dump(meta, open(mp, "w"), indent=1)
        rows.append(f"| {sid} | {prop} | {what} | {needs} | {', '.join(caught_by) or '-'} |")
    print("\n".join(rows))


if __name__ == "__main__":
    main()
