#!/bin/bash
# For each (seed, property): apply the seeded change, run the check, replay its first violation (must fail: rc 1),
# restore /repo, replay again (must hold: rc 0).
cd /verif
for spec in "$@"; do
  sid=${spec%%:*}; prop=${spec##*:}
  git -C /repo apply /verif/seeded/$sid/patch.diff || { echo "$sid: patch does not apply"; continue; }
  f=$(./check $prop 2>&1 | grep -m1 "^VIOLATION" | sed 's/.*replay=//')
  if [ -z "$f" ]; then echo "$sid/$prop: no violation"; git -C /repo checkout -- .; continue; fi
  ./check $prop --replay $f > /dev/null 2>&1; r1=$?
  git -C /repo checkout -- .
  ./check $prop --replay $f > /dev/null 2>&1; r0=$?
  echo "$sid/$prop: replay with change rc=$r1 (want 1), on clean tree rc=$r0 (want 0)  [$f]"
done
