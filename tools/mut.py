#!/usr/bin/env python3
"""tools/mut.py <patch.diff> [--tier quick] [ID ...]
Applies a seeded change to /repo, runs the given checks (default: all), restores /repo,
prints which checks reported a violation.  Never leaves /repo modified."""
import json
import os
import subprocess
import sys
import time

ROOT = os.path.dirname(os.path.dirname(os.path.abspath(__file__)))
REPO = "/repo"


def sh(*a, **k):
    return subprocess.run(a, capture_output=True, text=True, **k)


def main():
    args = sys.argv[1:]
    tier = "quick"
    if "--tier" in args:
        i = args.index("--tier")
        tier = args[i + 1]
        del args[i:i + 2]
    patch = os.path.abspath(args[0])
    ids = args[1:] or [json.loads(l)["id"] for l in open(os.path.join(ROOT, "properties.jsonl"))]
    st = sh("git", "-C", REPO, "status", "--porcelain").stdout.strip()
    if st:
        print("refusing: /repo is not clean:\n" + st)
        return 2
    r = sh("git", "-C", REPO, "apply", patch)
    if r.returncode:
        print("patch does not apply:", r.stderr)
        return 2
    res = {}
    try:
        for pid in ids:
            t0 = time.time()
            p = sh(os.path.join(ROOT, "check"), pid, "--tier", tier)
            viol = [l for l in p.stdout.splitlines() if l.startswith("VIOLATION")]
            what = [l.strip() for l in p.stdout.splitlines() if l.strip().startswith("what:")]
            res[pid] = {"rc": p.returncode, "violations": len(viol), "first": (what[0][:300] if what else ""), "wall": round(time.time() - t0, 1)}
            flag = "CAUGHT" if p.returncode == 1 else ("silent" if p.returncode == 0 else f"ERROR rc={p.returncode}")
            print(f"{pid}: {flag} ({len(viol)} violation lines, {res[pid]['wall']}s) {res[pid]['first']}", flush=True)
            if p.returncode not in (0, 1):
                print(p.stdout[-1500:], p.stderr[-1500:])
    finally:
        sh("git", "-C", REPO, "checkout", "--", ".")
        extra = sh("git", "-C", REPO, "status", "--porcelain").stdout.strip()
        if extra:
            for line in extra.splitlines():
                if line.startswith("??"):
                    f = os.path.join(REPO, line[3:])
                    if os.path.isfile(f):
                        os.remove(f)
    print(json.dumps({"patch": patch, "tier": tier, "caught_by": [k for k, v in res.items() if v["rc"] == 1], "results": res}))
    return 0


if __name__ == "__main__":
    sys.exit(main())
