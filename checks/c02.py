"""C02 - see checks/sched.py (shared scheduler sweep) and mc/ref/schedulers_spec.py."""
from checks import sched
from mc import pairhist

PROPERTY = "C02"
META = {
    "level": "model_checking",
    "rule": ("full product of the configuration lattice N x fs x olap x bmin x Lmin x Jdes x Kdes (see bounds) for the four "
             "schedulers, inadmissible combinations filtered by the property's quantifier and counted; every plan is checked bin by "
             "bin; a case is non-trivial when the plan has >= 2 bins; cases are distinct lattice points"),
    "exhaustive": True,
    "bounds": {
        "quick": "N in 8..40 + {100,127,1000} (+ spot configurations at N=60000 and 100000: olap {.5,.75}, bmin {1,3.7}, Lmin {1,1000}, Jdes {50,500}, Kdes {10,100}); fs in {1,0.37,1000}; olap in {0,.25,.3,.5,2/3,.75,.9,.99}; bmin in {1,1.5,2,3.7,N/4,N/2-.01}; Lmin in {1,2,5,N//4,N//2,ceil(.9N),N-1,N}; Jdes in {1,2,5,10,50,500}; Kdes in {1,2,10,100}; each plan also requested through SpectrumAnalyzer.plan() (Jdes in {1,5,50,500}) and compared with the direct call",
        "thorough": "N in 8..64 + {100,127,1000,4096,1e4,1e5}; fs in {1,2,0.37,1000}; Jdes adds 3 and 100, Kdes adds 5; same other axes",
    },
    "assumptions": ["call-history part: every ordered pair of a 34-configuration set (one parameter varied at a time) is run as fork->A->fork->B and B compared bitwise with B in a pristine process",
                    "configurations off the lattice are not covered (small-scope hypothesis: all clamp interactions occur for N<=64)",
                    "a scheduler call that does not return within 60 s is reported as a failure of that call"],
}


def shards(tier, seed):
    return pairhist.shards_for(PROPERTY) + sched.shards_for(tier, seed, PROPERTY)


def run_shard(shard):
    if shard.get("part") == "pairs":
        return pairhist.run_pair_shard(shard, ("plan", "sched", "nf"))
    return sched.run_shard_for(shard)


def replay(case):
    if case.get("part") == "pairs":
        return run_shard(case)["failures"]
    return sched.replay_for(case)
