"""
C13 - inputs are sanitised (non-finite -> 0), never modified, layout-independent;
finite input gives finite outputs.

(i)   N=8: every non-empty subset of positions x kind {NaN,+Inf,-Inf,mixed} x channel
      {x,y,both} x container; result == result for the zero-filled record; caller's
      object byte-identical afterwards.
(ii)  containers x dtypes x shapes: result == result for the float64 (2,N) array.
(iii) finiteness of every density/coherence/transfer quantity (and error bars where
      coh>0) for all x in {-2,0,1}^6+suffix x partners x scales {1e-150,1,1e150,1e-157}.
"""
import itertools

import numpy as np

from mc import ana, framework as fw, records

PROPERTY = "C13"
META = {
    "level": "model_checking",
    "rule": ("(i) all 255 non-empty position subsets x 4 kinds x 3 channel choices x 8 containers (+ single-channel); (ii) full product "
             "container x dtype x shape; (iii) every record of {-2,0,1}^6 (+2 fixed samples) x 10 partners x 3 scales x 4 orders x "
             "auto|cross x full|single-bin; non-trivial: (i)/(ii) every case (the clean reference result is non-zero), (iii) records that are not "
             "identically zero"),
    "exhaustive": True,
    "bounds": {"quick": "N=8; kinds NaN/+Inf/-Inf/mixed; containers: C float64 ndarray, float32, Fortran-ordered 2xN (also read-only), C- and Fortran-ordered Nx2 (also read-only), strided view, read-only array, list of lists, list of arrays; backends numba and numpy; dtypes f8,f4,i8,i4,bool; scales 1e-150,1,1e150,1e-157 (subnormal mean squares)",
               "thorough": "(iii) over {-2,0,1}^8"},
    "assumptions": ["cf_db at cf=0 is -inf by definition of a decibel and is not demanded to be finite",
                    "magnitude alphabet {1e-157,1e-150,1,1e150}: the spectral densities themselves are representable in float64"],
}
KW = dict(olap=0.5, Jdes=4, Kdes=2, win="hann", scheduler="ltf")
RAWK = ("XX", "YY", "XY", "M2", "S12", "S2", "f", "L", "K")


def containers():
    """name -> builder(x, y) returning (object passed to the analyzer, arrays to snapshot)."""
    def c64(x, y):
        a = np.ascontiguousarray(np.stack([x, y]))
        return a, [a]

    def f32(x, y):
        a = np.stack([x, y]).astype(np.float32)
        return a, [a]

    def fortran(x, y):
        a = np.asfortranarray(np.stack([x, y]))
        return a, [a]

    def nx2(x, y):
        a = np.ascontiguousarray(np.stack([x, y]).T)
        return a, [a]

    def nx2_f(x, y):
        base = np.ascontiguousarray(np.stack([x, y]))
        return base.T, [base]          # Fortran-ordered Nx2 view (what np.vstack([x, y]).T gives)

    def nx2_f_readonly(x, y):
        base = np.ascontiguousarray(np.stack([x, y]))
        v = base.T
        v.setflags(write=False)
        base.setflags(write=False)
        return v, [base]

    def fortran_readonly(x, y):
        a = np.asfortranarray(np.stack([x, y]))
        a.setflags(write=False)
        return a, [a]

    def strided(x, y):
        big = np.zeros((2, 2 * x.size))
        big[:, ::2] = np.stack([x, y])
        big[:, 1::2] = 7.0
        return big[:, ::2], [big]

    def readonly(x, y):
        a = np.ascontiguousarray(np.stack([x, y]))
        a.setflags(write=False)
        return a, [a]

    def lol(x, y):
        a = [list(map(float, x)), list(map(float, y))]
        return a, []

    def loa(x, y):
        xa, ya = x.copy(), y.copy()
        return [xa, ya], [xa, ya]

    def objarr(x, y):
        a = np.empty((2, x.size), dtype=object)   # object-dtype array of Python floats (what a pandas object column yields)
        for i in range(x.size):
            a[0, i], a[1, i] = float(x[i]), float(y[i])
        return a, []

    def listnone(x, y):
        # list of channels in which missing samples are None (NaN positions) and infinities are Python floats
        return [[None if np.isnan(v) else float(v) for v in x], [None if np.isnan(v) else float(v) for v in y]], []

    return {"objarr": objarr, "listnone": listnone, "c64": c64, "f32": f32, "fortran": fortran, "nx2": nx2, "nx2_F": nx2_f, "nx2_F_readonly": nx2_f_readonly,
            "fortran_readonly": fortran_readonly, "strided": strided, "readonly": readonly, "listlist": lol, "listarr": loa}


def containers_1d():
    def c64(x):
        a = x.copy()
        return a, [a]

    def strided(x):
        big = np.full(2 * x.size, 7.0)
        big[::2] = x
        return big[::2], [big]

    def readonly(x):
        a = x.copy()
        a.setflags(write=False)
        return a, [a]

    def lst(x):
        return list(map(float, x)), []

    def f32(x):
        a = x.astype(np.float32)
        return a, [a]

    def objarr(x):
        a = np.empty(x.size, dtype=object)
        for i in range(x.size):
            a[i] = None if np.isnan(x[i]) else float(x[i])
        return a, []

    return {"c64": c64, "strided": strided, "readonly": readonly, "list": lst, "f32": f32, "objarr": objarr}


def shards(tier, seed):
    out = []
    for cn in containers():
        for order, backend in ((0, "numba"), (2, "numba"), (0, "numpy"), (1, "numpy")):
            out.append({"part": "nonfinite", "container": cn, "order": order, "seed": seed, "backend": backend})
    for cn in containers_1d():
        for backend in ("numba", "numpy"):
            out.append({"part": "nonfinite1d", "container": cn, "order": 0, "seed": seed, "backend": backend})
    out.append({"part": "untouched", "seed": seed})
    out.append({"part": "bigN", "seed": seed})
    out.append({"part": "layout", "seed": seed})
    n = 6 if tier == "quick" else 8
    M = 3 ** n
    nchunk = 16 if tier == "quick" else 128
    for ci in range(nchunk):
        out.append({"part": "finite", "n": n, "lo": ci * M // nchunk, "hi": (ci + 1) * M // nchunk})
    return out


def run_shard(shard):
    ana.quiet()
    return {"nonfinite": _nonfinite, "nonfinite1d": _nonfinite1d, "layout": _layout, "finite": _finite, "untouched": _untouched, "bigN": _bign,
            "finite1": _finite_case}[shard["part"]](shard)


def replay(case):
    return run_shard(case)["failures"]


def rawdict(r):
    return {k: np.asarray(getattr(r, k)).copy() for k in RAWK}


def same(a, b):
    for k in RAWK:
        if a[k].shape != b[k].shape or not np.allclose(a[k], b[k], rtol=1e-12, atol=0, equal_nan=False):
            return k
    return None


def poison(v, kind, idx):
    v = v.copy()
    vals = {"nan": [np.nan], "pinf": [np.inf], "ninf": [-np.inf], "mixed": [np.nan, np.inf, -np.inf]}[kind]
    for t, i in enumerate(idx):
        v[i] = vals[t % len(vals)]
    return v


def zero_fill(v):
    w = v.copy()
    w[~np.isfinite(w)] = 0.0
    return w


def _nonfinite(shard):
    N = 8
    build = containers()[shard["container"]]
    x0, y0 = records.id1(N) + 0.25, records.id2(N)
    out = {"evals": 0, "nontrivial": 0, "failures": [], "samples": [], "extra": {"caller_arrays_checked": 0}}
    seen = set()
    only = shard.get("only")
    for mask in range(1, 256):
        idx = [i for i in range(N) if mask >> i & 1]
        for kind, who in itertools.product(("nan", "pinf", "ninf", "mixed"), ("x", "y", "both")):
            if only and (mask, kind, who) != tuple(only):
                continue
            xp = poison(x0, kind, idx) if who in ("x", "both") else x0
            yp = poison(y0, kind, idx) if who in ("y", "both") else y0
            obj, snaps = build(xp, yp)
            before = [s.tobytes() for s in snaps]
            case = dict(shard, only=[mask, kind, who])
            tag = f"{shard['container']}/order={shard['order']}/{shard.get('backend', 'numba')}"
            try:
                r = ana.make_analyzer(obj, 2.0, order=shard["order"], backend=shard.get("backend", "numba"), **KW).compute()
            except Exception as e:  # noqa: BLE001
                out["evals"] += 1
                if f"raises/{tag}" not in seen:
                    seen.add(f"raises/{tag}")
                    out["failures"].append(fw.fail(f"raises/{tag}", f"non-finite input ({kind} at {idx} in {who}) raised {type(e).__name__}: {e}", case))
                continue
            clean = ana.make_analyzer(np.stack([zero_fill(xp), zero_fill(yp)]).astype(np.float32).astype(np.float64) if shard["container"] == "f32" else np.stack([zero_fill(xp), zero_fill(yp)]),
                                      2.0, order=shard["order"], backend=shard.get("backend", "numba"), **KW).compute()
            out["evals"] += 1
            out["nontrivial"] += 1
            k = same(rawdict(r), rawdict(clean))
            if k is not None and f"result/{tag}" not in seen:
                seen.add(f"result/{tag}")
                out["failures"].append(fw.fail(f"result/{tag}", f"{kind} at positions {idx} of {who}: field {k} differs from the zero-filled record's result: {np.asarray(getattr(r, k)).tolist()} vs {np.asarray(getattr(clean, k)).tolist()}", case))
            out["extra"]["caller_arrays_checked"] += len(snaps)
            for s, b in zip(snaps, before):
                if s.tobytes() != b and f"mutated/{tag}" not in seen:
                    seen.add(f"mutated/{tag}")
                    out["failures"].append(fw.fail(f"mutated/{tag}", f"caller's array was modified: {kind} at positions {idx} of {who}; now {np.asarray(s).tolist()}", case))
    out["samples"].append({"container": shard["container"], "subsets": 255, "kinds": 4, "channels": 3})
    return out


def _nonfinite1d(shard):
    N = 8
    build = containers_1d()[shard["container"]]
    x0 = records.id1(N) + 0.25
    out = {"evals": 0, "nontrivial": 0, "failures": [], "samples": [], "extra": {"caller_arrays_checked": 0}}
    seen = set()
    only = shard.get("only")
    for mask in range(1, 256):
        idx = [i for i in range(N) if mask >> i & 1]
        for kind in ("nan", "pinf", "ninf", "mixed"):
            if only and (mask, kind) != tuple(only):
                continue
            xp = poison(x0, kind, idx)
            obj, snaps = build(xp)
            before = [s.tobytes() for s in snaps]
            case = dict(shard, only=[mask, kind])
            tag = f"1d/{shard['container']}/{shard.get('backend', 'numba')}"
            try:
                an = ana.make_analyzer(obj, 2.0, order=shard["order"], backend=shard.get("backend", "numba"), **KW)
                r = an.compute()
                sb = an.compute_single_bin(0.3, L=4)
            except Exception as e:  # noqa: BLE001
                out["evals"] += 1
                if f"raises/{tag}" not in seen:
                    seen.add(f"raises/{tag}")
                    out["failures"].append(fw.fail(f"raises/{tag}", f"non-finite input ({kind} at {idx}) raised {type(e).__name__}: {e}", case))
                continue
            zf = zero_fill(xp)
            if shard["container"] == "f32":
                zf = zf.astype(np.float32).astype(np.float64)
            anc = ana.make_analyzer(zf, 2.0, order=shard["order"], backend=shard.get("backend", "numba"), **KW)
            clean, sbc = anc.compute(), anc.compute_single_bin(0.3, L=4)
            out["evals"] += 2
            out["nontrivial"] += 2
            k = same(rawdict(r), rawdict(clean)) or same(rawdict(sb), rawdict(sbc))
            if k is not None and f"result/{tag}" not in seen:
                seen.add(f"result/{tag}")
                out["failures"].append(fw.fail(f"result/{tag}", f"{kind} at positions {idx}: field {k} differs from the zero-filled record's result", case))
            out["extra"]["caller_arrays_checked"] += len(snaps)
            for s, b in zip(snaps, before):
                if s.tobytes() != b and f"mutated/{tag}" not in seen:
                    seen.add(f"mutated/{tag}")
                    out["failures"].append(fw.fail(f"mutated/{tag}", f"caller's 1-D array was modified: {kind} at positions {idx}; now {np.asarray(s).tolist()}", case))
    out["samples"].append({"container": "1d/" + shard["container"], "subsets": 255})
    return out


def _layout(shard):
    out = {"evals": 0, "nontrivial": 0, "failures": [], "samples": [], "extra": {}}
    seen = set()
    for N in (8, 9, 3):
        base = {"f8": (records.id1(N) * 40 - 3, records.id2(N) * 25 + 1)}
        for dt in ("f4", "i8", "i4", "bool"):
            xb, yb = base["f8"]
            if dt == "bool":
                base[dt] = ((xb > 0), (yb > 0))
            else:
                base[dt] = (xb.astype(dt), yb.astype(dt))
        for dt, (x, y) in base.items():
            x64, y64 = np.asarray(x, dtype=np.float64), np.asarray(y, dtype=np.float64)
            kw = dict(KW) if N >= 8 else dict(olap=0.0, Jdes=2, Kdes=1, win="hann", scheduler="ltf", bmin=1.0)
            for order in (-1, 0, 1):
                ref2 = ana.make_analyzer(np.stack([x64, y64]), 2.0, order=order, **kw)
                r2, s2 = rawdict(ref2.compute()), rawdict(ref2.compute_single_bin(0.4, L=N if N < 8 else 4))
                ref1 = ana.make_analyzer(x64.copy(), 2.0, order=order, **kw)
                r1 = rawdict(ref1.compute())
                st = np.stack([x, y])
                variants = {
                    "2xN": st, "Nx2": np.ascontiguousarray(st.T), "2xN-F": np.asfortranarray(st), "Nx2-F": np.asfortranarray(st.T),
                    "2xN-T-view": np.ascontiguousarray(st.T).T, "strided": np.repeat(st, 2, axis=1)[:, ::2],
                    "neg-stride": st[:, ::-1][:, ::-1], "listlist": [list(x.tolist()), list(y.tolist())],
                    "listarr": [x.copy(), y.copy()], "tuple": (x.copy(), y.copy()),
                    "rows-list-Nx2": [[a, b] for a, b in zip(x.tolist(), y.tolist())],
                }
                for vn, obj in variants.items():
                    out["evals"] += 1
                    out["nontrivial"] += 1
                    key = f"layout/{vn}/{dt}"
                    case = {"part": "layout", "seed": shard["seed"]}
                    try:
                        an = ana.make_analyzer(obj, 2.0, order=order, **kw)
                        if not an.iscsd:
                            raise AssertionError("two-channel input not recognised as two-channel")
                        k = same(rawdict(an.compute()), r2) or same(rawdict(an.compute_single_bin(0.4, L=N if N < 8 else 4)), s2)
                    except Exception as e:  # noqa: BLE001
                        k = f"{type(e).__name__}: {e}"
                    if k is not None and key not in seen:
                        seen.add(key)
                        out["failures"].append(fw.fail(key, f"{key}: N={N} order={order}: differs from the float64 (2,N) result: {k}", case))
                v1 = {"1d": x.copy(), "1d-strided": np.repeat(x, 3)[::3], "1d-list": x.tolist(), "1d-neg": x[::-1][::-1]}
                for vn, obj in v1.items():
                    out["evals"] += 1
                    out["nontrivial"] += 1
                    key = f"layout/{vn}/{dt}"
                    try:
                        an = ana.make_analyzer(obj, 2.0, order=order, **kw)
                        k = same(rawdict(an.compute()), r1)
                    except Exception as e:  # noqa: BLE001
                        k = f"{type(e).__name__}: {e}"
                    if k is not None and key not in seen:
                        seen.add(key)
                        out["failures"].append(fw.fail(key, f"{key}: N={N} order={order}: differs from the float64 1-D result: {k}", {"part": "layout", "seed": shard["seed"]}))
    out["samples"].append({"layouts": "2xN,Nx2,F-order,views,strided,lists,tuples x dtypes f8,f4,i8,i4,bool x N in {8,9,3}"})
    return out


def _untouched(shard):
    """Finite records: after plan/compute/compute_single_bin (also with L=N: single segment) on every backend and
    order, every array the caller handed in is byte-identical; read-only inputs are accepted."""
    N = 8
    out = {"evals": 0, "nontrivial": 0, "failures": [], "samples": [], "extra": {"caller_arrays_checked": 0}}
    seen = set()
    x0, y0 = records.id1(N) * 3 + 5.0, records.id2(N) - 2.0
    for kind, conts in (("2ch", containers()), ("1ch", containers_1d())):
        for cn, build in conts.items():
            for backend, order in itertools.product(("numba", "numpy"), (-1, 0, 1, 2)):
                obj, snaps = build(x0, y0) if kind == "2ch" else build(x0)
                before = [s_.tobytes() for s_ in snaps]
                tag = f"{kind}/{cn}/{backend}/order={order}"
                out["evals"] += 1
                out["nontrivial"] += 1
                try:
                    an = ana.make_analyzer(obj, 2.0, order=order, backend=backend, **KW)
                    an.plan()
                    an.compute()
                    an.compute_single_bin(0.3, L=4)
                    an.compute_single_bin(0.3, L=N)
                    an.compute()
                    # segments that tile the record back to back (no overlap, L dividing N)
                    an0 = ana.make_analyzer(obj, 2.0, order=order, backend=backend, **dict(KW, olap=0.0))
                    an0.compute_single_bin(0.3, L=2)
                    an0.compute_single_bin(0.6, L=4)
                    an0.compute()
                except Exception as e:  # noqa: BLE001
                    key = f"untouched/raises/{kind}/{cn}/{backend}"
                    if key not in seen:
                        seen.add(key)
                        out["failures"].append(fw.fail(key, f"{tag}: finite input raised {type(e).__name__}: {e}", dict(shard)))
                    continue
                out["extra"]["caller_arrays_checked"] += len(snaps)
                for s_, b in zip(snaps, before):
                    if s_.tobytes() != b:
                        key = f"untouched/mutated/{kind}/{cn}/{backend}"
                        if key not in seen:
                            seen.add(key)
                            out["failures"].append(fw.fail(key, f"{tag}: the caller's (finite) array was modified: now {np.asarray(s_).tolist()}", dict(shard)))
    out["samples"].append({"untouched": "containers x backends x orders, plan/compute/single-bin(L=4, L=N)"})
    return out


def _bign(shard):
    """Records of realistic length: non-finite samples at the first, middle and last position (and a run of them)."""
    N = 5000
    out = {"evals": 0, "nontrivial": 0, "failures": [], "samples": [], "extra": {"caller_arrays_checked": 0}}
    seen = set()
    x0, y0 = records.id1(N) + 0.25, records.id3(N)
    kw = dict(olap=0.5, Jdes=40, Kdes=8, win="hann", scheduler="vectorized_ltf")
    conts = containers()
    for cn in ("c64", "nx2_F", "fortran", "f32", "listarr", "readonly"):
        for idx, kind, who, backend in itertools.product(([0], [N // 2], [N - 1], list(range(100, 140)), [0, N - 1]), ("nan", "ninf", "mixed"), ("x", "y", "both"), ("numba", "numpy")):
            xp = poison(x0, kind, idx) if who in ("x", "both") else x0
            yp = poison(y0, kind, idx) if who in ("y", "both") else y0
            obj, snaps = conts[cn](xp, yp)
            before = [s_.tobytes() for s_ in snaps]
            tag = f"bigN/{cn}/{backend}"
            out["evals"] += 1
            out["nontrivial"] += 1
            try:
                r = ana.make_analyzer(obj, 2.0, order=1, backend=backend, **kw).compute()
                zx, zy = zero_fill(xp), zero_fill(yp)
                if cn == "f32":
                    zx, zy = zx.astype(np.float32).astype(np.float64), zy.astype(np.float32).astype(np.float64)
                clean = ana.make_analyzer(np.stack([zx, zy]), 2.0, order=1, backend=backend, **kw).compute()
            except Exception as e:  # noqa: BLE001
                if f"raises/{tag}" not in seen:
                    seen.add(f"raises/{tag}")
                    out["failures"].append(fw.fail(f"raises/{tag}", f"N={N}: non-finite input ({kind} at {idx[:3]}.. in {who}) raised {type(e).__name__}: {e}", dict(shard)))
                continue
            k = same(rawdict(r), rawdict(clean))
            if k is not None and f"result/{tag}" not in seen:
                seen.add(f"result/{tag}")
                out["failures"].append(fw.fail(f"result/{tag}", f"N={N}: {kind} at {idx[:3]}.. of {who}: field {k} differs from the zero-filled record's result", dict(shard)))
            out["extra"]["caller_arrays_checked"] += len(snaps)
            for s_, b in zip(snaps, before):
                if s_.tobytes() != b and f"mutated/{tag}" not in seen:
                    seen.add(f"mutated/{tag}")
                    out["failures"].append(fw.fail(f"mutated/{tag}", f"N={N}: caller's array modified ({kind} at {idx[:3]}.. of {who})", dict(shard)))
    out["samples"].append({"bigN": N, "positions": "first, middle, last, a run of 40, both ends"})
    return out


FIN_ATTRS = ("Gxx", "Gyy", "Gxy", "ENBW", "csd", "cs", "Gyx", "coh", "ccoh", "Hxy", "Hyx", "tf", "cf", "cf_rad", "cf_deg",
             "GyyCx", "GyyRx", "GyySx", "XX_mean", "YY_mean", "XY_M2", "XY_emp_var", "XY_emp_dev", "Gxy_emp_dev")
FIN_AUTO = ("Gxx", "Gyy", "Gxy", "ENBW", "psd", "asd", "ps", "G", "XX_mean", "XY_M2", "XY_emp_var", "XY_emp_dev", "Gxx_emp_dev",
            "Gxx_dev", "Gyy_dev", "Gxx_error", "Gyy_error")
ERR_ATTRS = ("Gxx_dev", "Gyy_dev", "Gxy_dev", "Hxy_dev", "coh_dev", "Gxx_error", "Gyy_error", "Gxy_error", "Hxy_mag_error",
             "Hxy_rad_error", "Hxy_deg_error", "coh_error")
PARTN = ("zero", "const", "same", "m2x", "xpc", "id1", "roll", "rev", "big", "tiny")


def _partner(name, x):
    from checks.c09 import partner
    if name == "big":
        return records.id1(x.size) * 1e150
    if name == "tiny":
        return records.id1(x.size) * 1e-150
    return partner(name, x)


def _finite(shard):
    n = shard["n"]
    alln = records.sigma_all(n)[shard["lo"]:shard["hi"]]
    out = {"evals": 0, "nontrivial": 0, "failures": [], "samples": [], "extra": {}}
    seen = set()
    for s in alln:
        x = s if n == 8 else np.concatenate([s, [1.0, -2.0]])
        # 1e-157: the mean squares (1e-314) are subnormal numbers - finite, and every ratio of them is representable
        for pn, scale, order in itertools.product(PARTN, (1e-150, 1.0, 1e150, 1e-157), (-1, 0, 1, 2)):
            if scale == 1e-157 and pn == "big":
                continue   # a transfer function of 1e307 and more: the value itself is not representable
            r = _finite_case({"x": x.tolist(), "partner": pn, "scale": scale, "order": order})
            out["evals"] += r["evals"]
            out["nontrivial"] += r["nontrivial"]
            for f_ in r["failures"]:
                if f_["key"] not in seen:
                    seen.add(f_["key"])
                    out["failures"].append(f_)
        if not out["samples"]:
            out["samples"].append({"x": x.tolist(), "partners": list(PARTN), "scales": [1e-150, 1, 1e150, 1e-157]})
    return out


def _finite_case(c):
    x = np.asarray(c["x"], dtype=np.float64)
    y = _partner(c["partner"], x)
    sc = c["scale"]
    xs, ys = x * sc, (y * sc if c["partner"] not in ("big", "tiny") else y)
    case = dict(c, part="finite1")
    out = {"evals": 0, "nontrivial": 0, "failures": []}

    def add(tag, msg):
        key = f"finite/{tag}"
        if not any(f_["key"] == key for f_ in out["failures"]):
            out["failures"].append(fw.fail(key, f"{key}: {msg} :: partner={c['partner']} scale={sc} order={c['order']} x={xs.tolist()} y={ys.tolist()}", case))

    with np.errstate(all="ignore"):
        try:
            an2 = ana.make_analyzer(np.stack([xs, ys]), 2.0, order=c["order"], **KW)
            an1 = ana.make_analyzer(xs.copy(), 2.0, order=c["order"], **KW)
            results = [("cross/full", an2.compute(), True), ("cross/single", an2.compute_single_bin(0.3, L=4), True),
                       ("auto/full", an1.compute(), False), ("auto/single", an1.compute_single_bin(0.3, L=4), False)]
        except Exception as e:  # noqa: BLE001
            add("raises", f"{type(e).__name__}: {e}")
            out["evals"] = 1
            return out
        for tag, r, iscsd in results:
            out["evals"] += 1
            out["nontrivial"] += int(np.any(xs != 0))
            for a in (FIN_ATTRS if iscsd else FIN_AUTO):
                v = getattr(r, a)
                if v is None:
                    continue
                if not np.all(np.isfinite(v)):
                    add(f"{tag}/{a}", f"{a} = {np.asarray(v).tolist()} is not finite")
            if iscsd:
                coh = np.asarray(r.coh)
                pos = np.isfinite(coh) & (coh > 0)
                for a in ERR_ATTRS:
                    v = np.asarray(getattr(r, a))
                    if not np.all(np.isfinite(v[pos])):
                        add(f"{tag}/{a}", f"{a} = {v.tolist()} not finite where coh = {coh.tolist()} > 0")
    return out
