"""
C16 - fractional time shifting is exact Lagrange interpolation.

* lagrange_taps == exact rational Lagrange weights for all 56 odd orders 1..111 and
  fractional parts k/16 (k=0..15), 1e-9, 1-1e-9; taps sum to one.
* timeshift: every integer shift in [-N-3, N+3] = displacement with end values held;
  zero shift = identity; polynomials of degree <= p reproduced at every interior
  sample; value at interior samples = polynomial through the p+1 surrounding samples
  evaluated at n+s; constant-vs-varying path agreement where both stencils are interior.
* df_timeshift: seconds*fs samples on the selected numeric columns only.
"""
import itertools
from fractions import Fraction

import numpy as np

from mc import framework as fw, records
from mc.ref import lagrange

PROPERTY = "C16"
META = {
    "level": "model_checking",
    "rule": ("full product order(56) x fractional part(18) for the taps; order x record length x shift (all integers in [-N-3,N+3] and a "
             "fractional set) x record for timeshift; full option product for df_timeshift; every case distinct; non-trivial: cases "
             "with at least one interior sample (or any tap comparison)"),
    "exhaustive": True,
    "bounds": {"quick": "orders 1..111 odd (taps); timeshift orders {1,3,5,7,31,111}; N in 2..12 + {p+5, 3p+7}; fractional shifts +-{.25,1.5,7.75,N+2.5}, 1e-9",
               "thorough": "timeshift for all 56 orders"},
    "assumptions": ["interior = all p+1 stencil samples n+floor(s)-(halfp-1) .. n+floor(s)+halfp inside the record",
                    "float tolerance 1e-10 relative to the largest tap / 1e-9 relative to the data scale times the Lebesgue constant of the stencil"],
}
FRACS = [Fraction(k, 16) for k in range(16)] + [Fraction(1, 10 ** 9), 1 - Fraction(1, 10 ** 9)]


def shards(tier, seed):
    out = [{"part": "taps", "orders": list(range(lo, min(lo + 16, 112), 2))} for lo in range(1, 112, 16)]
    orders = [1, 3, 5, 7, 31, 111] if tier == "quick" else list(range(1, 112, 2))
    for p in orders:
        out.append({"part": "shift", "order": p, "seed": seed})
    out.append({"part": "df", "seed": seed})
    # long records (size-dependent code paths): the same interior-sample statement with a *local* rounding bound
    for p, N in ((31, 530000), (111, 150000), (3, 600000), (7, 70000)):
        for rn in ("ramp2", "glitch", "id1"):
            out.append({"part": "long", "order": p, "N": N, "rec": rn})
    return out


def run_shard(shard):
    import logging
    logging.disable(logging.CRITICAL)
    return {"taps": _taps, "shift": _shift, "df": _df, "long": _long}[shard["part"]](shard)


def replay(case):
    return run_shard(case)["failures"]


def _taps(shard):
    from speckit.dsp import lagrange_taps

    out = {"evals": 0, "nontrivial": 0, "failures": [], "samples": [], "extra": {"max_tap_err_rel": 0.0}}
    for p in shard["orders"]:
        halfp = (p + 1) // 2
        d = np.array([float(f) for f in FRACS])
        got = lagrange_taps(d, halfp)
        if got.shape != (len(FRACS), 2 * halfp):
            out["failures"].append(fw.fail(f"taps/shape", f"order {p}: shape {got.shape}", dict(shard, orders=[p])))
            continue
        for i, fr in enumerate(FRACS):
            _, w = lagrange.weights(p, fr)
            ref = np.array([float(v) for v in w])
            scale = float(np.max(np.abs(ref)))
            err = float(np.max(np.abs(got[i] - ref))) / scale
            out["evals"] += 1
            out["nontrivial"] += 1
            out["extra"]["max_tap_err_rel"] = max(out["extra"]["max_tap_err_rel"], err)
            if not (err <= 1e-10):
                out["failures"].append(fw.fail(f"taps/value", f"order {p} frac {float(fr)!r}: taps {got[i].tolist()} differ from exact Lagrange weights {ref.tolist()} (rel err {err:.3e})", dict(shard, orders=[p])))
                break
            if not (abs(float(np.sum(got[i])) - 1.0) <= 1e-12 * max(1.0, float(np.sum(np.abs(ref))))):
                out["failures"].append(fw.fail(f"taps/sum", f"order {p} frac {float(fr)!r}: taps sum to {float(np.sum(got[i]))!r}", dict(shard, orders=[p])))
                break
    out["samples"].append({"orders": shard["orders"], "fracs": [str(f) for f in FRACS[:4]] + ["..."]})
    return out


def ref_shift(x, s, p):
    """Exact-arithmetic reference at interior samples: value at n+s of the degree-p polynomial through
    the p+1 samples around n+floor(s). Returns (values, interior mask, lebesgue)."""
    N = len(x)
    halfp = (p + 1) // 2
    si = int(np.floor(s))
    fr = Fraction(s) - si if not isinstance(s, Fraction) else s - si
    fr = Fraction(float(s)) - si
    nodes, w = lagrange.weights(p, fr)
    wf = np.array([float(v) for v in w])
    val = np.full(N, np.nan)
    interior = np.zeros(N, dtype=bool)
    for n in range(N):
        lo = n + si + nodes[0]
        hi = n + si + nodes[-1]
        if lo >= 0 and hi <= N - 1:
            interior[n] = True
            val[n] = float(np.dot(wf, x[lo:hi + 1]))
    return val, interior, float(np.sum(np.abs(wf)))


def _shift(shard):
    from speckit.dsp import timeshift

    p = shard["order"]
    seed = shard["seed"]
    out = {"evals": 0, "nontrivial": 0, "failures": [], "samples": [], "extra": {"interior_samples": 0}}
    seen = set()

    def add(tag, msg, case):
        key = f"{tag}/order={p}"
        if key not in seen:
            seen.add(key)
            out["failures"].append(fw.fail(key, f"{key}: {msg}", case))

    Ns = sorted(set(range(2, 13)) | {p + 5, 3 * p + 7})
    only = shard.get("only")
    for N in Ns:
        recs = {"id1": records.id1(N), "pow": records.powrec(N), "seed": records.seeded(N, seed)}
        for dg in range(0, min(p, 7) + 1):
            t = np.arange(N, dtype=float)
            recs[f"poly{dg}"] = (0.3 * (t - N / 3) / max(N, 1)) ** dg * (1 + dg) - 0.2 * dg
        ints = list(range(-N - 3, N + 4))
        fracs = [0.25, -0.25, 1.5, -1.5, 7.75, -7.75, N + 2.5, -(N + 2.5), 1e-9, -1e-9, 0.999999999]
        for rn, x in recs.items():
            scale = float(np.max(np.abs(x))) + 1e-300
            for s in ints + fracs:
                if only and (N, rn, s) != (only[0], only[1], only[2]):
                    continue
                case = dict(shard, only=[N, rn, s])
                try:
                    y = np.asarray(timeshift(x.copy(), s, order=p))
                except Exception as e:  # noqa: BLE001
                    out["evals"] += 1
                    add("raises", f"timeshift(N={N}, shift={s}) raised {type(e).__name__}: {e}", case)
                    continue
                out["evals"] += 1
                if y.shape != x.shape:
                    add("shape", f"N={N} shift={s}: output shape {y.shape}", case)
                    continue
                if float(s) == int(s):
                    # pure displacement with the end values held
                    want = x[np.clip(np.arange(N) + int(s), 0, N - 1)]
                    out["nontrivial"] += 1
                    if not np.allclose(y, want, rtol=0, atol=1e-12 * scale):
                        add("integer", f"N={N} record {rn} integer shift {int(s)}: got {y.tolist()} expected displacement with held ends {want.tolist()}", case)
                    if s == 0 and not np.array_equal(y, x):
                        add("zero", f"N={N}: zero shift is not the identity", case)
                    continue
                val, interior, leb = ref_shift(x, s, p)
                if interior.any():
                    out["nontrivial"] += 1
                    out["extra"]["interior_samples"] += int(interior.sum())
                    tol = 1e-9 * scale * leb
                    if not np.all(np.abs(y[interior] - val[interior]) <= tol):
                        n = int(np.nonzero(interior)[0][np.argmax(np.abs(y[interior] - val[interior]))])
                        add("interior", f"N={N} record {rn} shift {s}: sample {n} = {y[n]!r}, polynomial through the {p + 1} surrounding samples at n+s gives {val[n]!r}", case)
                    if rn.startswith("poly"):
                        dg = int(rn[4:])
                        t = np.arange(N, dtype=float) + s
                        exact = (0.3 * (t - N / 3) / max(N, 1)) ** dg * (1 + dg) - 0.2 * dg
                        if not np.all(np.abs(y[interior] - exact[interior]) <= 1e-9 * (scale + np.max(np.abs(exact[interior]))) * leb):
                            add("polynomial", f"N={N} shift {s}: polynomial of degree {dg} <= order not reproduced at interior samples", case)
        # constant vs per-sample shift vectors
        x = records.id1(N)
        for s in (0.25, -1.5, 2.0, 3.75):
            if only:
                break
            yc = np.asarray(timeshift(x.copy(), s, order=p))
            yv = np.asarray(timeshift(x.copy(), np.full(N, s), order=p))
            _, interior, leb = ref_shift(x, s, p)
            out["evals"] += 1
            if interior.any():
                out["nontrivial"] += 1
                if not np.all(np.abs(yc[interior] - yv[interior]) <= 1e-9 * leb):
                    add("const-vs-vector", f"N={N} shift {s}: constant and per-sample paths differ at interior samples: {yc[interior].tolist()} vs {yv[interior].tolist()}", dict(shard))
        for s1, s2 in ((0.25, -0.5), (1.5, 2.25), (0.0, 0.75)):
            if only:
                break
            sv = np.where(np.arange(N) % 2 == 0, s1, s2)
            yv = np.asarray(timeshift(x.copy(), sv, order=p))
            y1 = np.asarray(timeshift(x.copy(), s1, order=p)) if s1 != 0 else x.copy()
            y2 = np.asarray(timeshift(x.copy(), s2, order=p))
            _, i1, l1 = ref_shift(x, s1, p) if s1 != 0 else (None, np.ones(N, bool), 1.0)
            _, i2, l2 = ref_shift(x, s2, p)
            m1 = i1 & (np.arange(N) % 2 == 0)
            m2 = i2 & (np.arange(N) % 2 == 1)
            out["evals"] += 1
            if m1.any() or m2.any():
                out["nontrivial"] += 1
                if not (np.all(np.abs(yv[m1] - y1[m1]) <= 1e-9 * l1) and np.all(np.abs(yv[m2] - y2[m2]) <= 1e-9 * l2)):
                    add("alternating-vector", f"N={N} alternating shifts ({s1},{s2}): per-sample path differs from the two constant runs at interior samples", dict(shard))
    out["samples"].append({"order": p, "N": Ns[:4], "example": {"N": 8, "shift": 0.25}})
    return out


def _long(shard):
    """Long records with a large dynamic range.  Every interior sample is compared with the Lagrange value computed in extended
    precision from the exact rational weights; the allowance at sample n is the rounding of *its own* stencil
    (64 u (p+2) sum_k |w_k| |x[n+k]|), so an error imported from far-away samples is visible."""
    from speckit.dsp import timeshift

    p, N, rn = shard["order"], shard["N"], shard["rec"]
    out = {"evals": 0, "nontrivial": 0, "failures": [], "samples": [], "extra": {"interior_samples": 0}}
    t = np.arange(N, dtype=np.float64)
    if rn == "ramp2":
        x = (t - 1000.0) ** 2 * 0.25 + 3.0 * t
    elif rn == "glitch":
        x = records.id1(N).copy()
        x[N // 3] = 1e13
    else:
        x = records.id1(N)
    u = float(np.finfo(np.float64).eps)
    seen = set()

    def add(tag, msg):
        key = f"long/{tag}/order={p}"
        if key not in seen:
            seen.add(key)
            out["failures"].append(fw.fail(key, f"{key}: N={N} record {rn}: {msg}", dict(shard)))

    halfp = (p + 1) // 2
    xl = x.astype(np.longdouble)
    xa = np.abs(x)
    for s in (0.25, -1.5, 1e-9, 12345.75, 3.0, -2.0, 0.0):
        out["evals"] += 1
        try:
            y = np.asarray(timeshift(x.copy(), s, order=p))
        except Exception as e:  # noqa: BLE001
            add("raises", f"timeshift(shift={s}) raised {type(e).__name__}: {e}")
            continue
        if y.shape != x.shape:
            add("shape", f"shift {s}: output shape {y.shape}")
            continue
        out["nontrivial"] += 1
        if float(s) == int(s):
            want = x[np.clip(np.arange(N) + int(s), 0, N - 1)]
            bad = np.nonzero(~(np.abs(y - want) <= 1e-12 * np.abs(want) + 1e-300))[0]
            if bad.size:
                n = int(bad[0])
                add("integer", f"integer shift {int(s)}: sample {n} = {y[n]!r}, displaced record has {want[n]!r} ({bad.size} samples differ)")
            continue
        si = int(np.floor(s))
        nodes, w = lagrange.weights(p, Fraction(float(s)) - si)
        wl = np.array([float(v) for v in w], dtype=np.longdouble)
        lo, hi = si + nodes[0], si + nodes[-1]
        n0, n1 = max(0, -lo), min(N - 1, N - 1 - hi)   # interior samples n0..n1
        if n1 < n0:
            continue
        m = n1 - n0 + 1
        val = np.zeros(m, dtype=np.longdouble)
        mag = np.zeros(m, dtype=np.float64)
        for k, nd in enumerate(nodes):
            a = n0 + si + nd
            val += wl[k] * xl[a:a + m]
            mag += abs(float(wl[k])) * xa[a:a + m]
        tol = 64 * u * (p + 2) * mag + 1e-300
        err = np.abs(y[n0:n1 + 1] - val.astype(np.float64))
        out["extra"]["interior_samples"] += m
        bad = np.nonzero(~(err <= tol))[0]
        if bad.size:
            n = int(bad[np.argmax(err[bad] / tol[bad])])
            add("interior", f"shift {s}: sample {n0 + n} = {y[n0 + n]!r}, Lagrange value of its own {p + 1}-sample stencil {float(val[n])!r} "
                            f"(error {err[n]:.3e}, rounding allowance of that stencil {tol[n]:.3e}; {bad.size} interior samples off)")
        # the per-sample path on the same constant shift
        yv = np.asarray(timeshift(x.copy(), np.full(N, s), order=p))
        errv = np.abs(yv[n0:n1 + 1] - y[n0:n1 + 1])
        badv = np.nonzero(~(errv <= 2 * tol))[0]
        out["evals"] += 1
        if badv.size:
            n = int(badv[0])
            add("const-vs-vector", f"shift {s}: constant path {y[n0 + n]!r} vs per-sample path {yv[n0 + n]!r} at interior sample {n0 + n}")
    out["samples"].append({"order": p, "N": N, "rec": rn})
    return out


def _df(shard):
    import pandas as pd
    from speckit.dsp import df_timeshift, timeshift

    out = {"evals": 0, "nontrivial": 0, "failures": [], "samples": [], "extra": {}}
    seen = set()
    N = 64
    df0 = pd.DataFrame({"a": records.id1(N), "b": records.id2(N), "c": (np.arange(N, dtype=np.int64) * 7) % 23 - 5,
                        "label": [f"r{i}" for i in range(N)]})
    base_df = df0
    frames = {"range": base_df, "floatindex": base_df.set_axis(np.arange(N) * 0.25 - 1.0), "datetime": base_df.set_axis(pd.date_range("2024-01-01", periods=N, freq="ms")),
              "shuffled-labels": base_df.set_axis((np.arange(N) * 5) % N)}
    for (fname, dfx), fs, seconds, cols, inplace, suffix in itertools.product(frames.items(), (1.0, 4.0, 0.5), (0.25, -1.5, 2.0, 0.0), (None, ["a"], ["a", "c"], ["c"], ["b", "label"]),
                                                                            (False, True), ("_shifted", "_s")):
        df0 = dfx
        case = dict(shard)
        out["evals"] += 1
        out["nontrivial"] += 1
        before = df0.copy(deep=True)
        try:
            r = df_timeshift(df0, fs, seconds, columns=cols, inplace=inplace, suffix=suffix)
        except Exception as e:  # noqa: BLE001
            key = "df/raises"
            if key not in seen:
                seen.add(key)
                out["failures"].append(fw.fail(key, f"df_timeshift(fs={fs}, seconds={seconds}, columns={cols}, inplace={inplace}) raised {type(e).__name__}: {e}", case))
            continue
        prob = []
        if not df0.equals(before):
            prob.append("input frame modified")
        sel = [c for c in (cols if cols is not None else list(df0.columns)) if c != "label"]
        for c in ("a", "b", "c"):
            want = np.asarray(timeshift(df0[c].to_numpy().copy(), seconds * fs), dtype=float) if seconds != 0 else df0[c].to_numpy()
            if seconds == 0:
                if not np.array_equal(r[c].to_numpy(), df0[c].to_numpy()):
                    prob.append(f"{c} changed by zero shift")
                continue
            if c in sel:
                tgt = c if inplace else f"{c}{suffix}"
                if tgt not in r.columns:
                    prob.append(f"missing column {tgt}")
                elif not np.allclose(np.asarray(r[tgt].to_numpy(), dtype=float), want, rtol=0, atol=1e-12):
                    prob.append(f"{tgt} != timeshift(column, seconds*fs={seconds * fs})")
                if not inplace and not np.array_equal(r[c].to_numpy(), df0[c].to_numpy()):
                    prob.append(f"original column {c} altered although inplace=False")
            else:
                if not np.array_equal(r[c].to_numpy(), df0[c].to_numpy()):
                    prob.append(f"unselected column {c} altered")
                if f"{c}{suffix}" in r.columns:
                    prob.append(f"unselected column {c} got a shifted copy")
        if list(r["label"]) != list(df0["label"]):
            prob.append("non-numeric column altered")
        if len(r) != len(df0) or not r.index.equals(df0.index):
            prob.append(f"index/row count changed ({fname} index)")
        if prob:
            key = "df/" + prob[0].split(" ")[0]
            if key not in seen:
                seen.add(key)
                out["failures"].append(fw.fail(key, f"df_timeshift(fs={fs}, seconds={seconds}, columns={cols}, inplace={inplace}, suffix={suffix!r}): {prob}", case))
    # shifts with many decimals, tiny shifts, and large shifts with a small fractional part (N large enough to keep interior samples)
    N2 = 2600
    df2 = pd.DataFrame({"a": records.id1(N2), "b": records.id3(N2) * 3.0})
    for fs, seconds in ((1.0, 0.123456789), (1.0, 1e-7), (1.0, 3e-9), (100.0, 20.0001), (1.0, 2000.01), (1.0, -1200.004), (3.0, 400.0000123), (1.0, 7.000000000000001)):
        for inplace in (False, True):
            out["evals"] += 1
            out["nontrivial"] += 1
            r = df_timeshift(df2, fs, seconds, columns=["a", "b"], inplace=inplace)
            for c in ("a", "b"):
                want = np.asarray(timeshift(df2[c].to_numpy().copy(), seconds * fs), dtype=float)
                got = np.asarray(r[c if inplace else f"{c}_shifted"].to_numpy(), dtype=float)
                if not np.allclose(got, want, rtol=0, atol=1e-13):
                    key = "df/shift-value"
                    if key not in seen:
                        seen.add(key)
                        out["failures"].append(fw.fail(key, f"df_timeshift(fs={fs}, seconds={seconds!r}): column {c} is not timeshift(column, seconds*fs={seconds * fs!r}) (max diff {float(np.max(np.abs(got - want))):.3e})", dict(shard)))
    out["samples"].append({"df options": "fs x seconds x columns x inplace x suffix", "N": N, "fine shifts": [0.123456789, 1e-7, 2000.01]})
    return out
