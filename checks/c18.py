"""
C18 - synthesised noise has the prescribed spectrum.

(i)   alpha_noise shaping filter evaluated analytically (freqz of the object's own
      coefficient arrays): two-sided density |H|^2*scaling^2*rms^2/fs equals f^-alpha
      within 1 dB on 400 log-spaced points of [3*fmin_eff, fmax_eff/3], for the full
      product alpha x (fs,fmin,fmax); white noise rms^2 = psd*fs.
(ii)  fftnoise: every magnitude vector over {0,1,2.5} for N=2..16 (Hermitian-mirrored
      and raw complex inputs), 3 seeds: real output, |DFT| equals the prescribed
      magnitudes, input not mutated.
(iii) band_limited_noise: samples 2..40, every (min,max) pair on and between FFT grid
      points: no power outside the band, unit magnitude inside.
"""
import itertools

import numpy as np

from mc import framework as fw, records

PROPERTY = "C18"
META = {
    "level": "model_checking",
    "rule": ("(i) full product alpha(11) x (fs,fmin,fmax)(12) x 400 frequencies; (ii) full product N x magnitude vectors over {0,1,2.5} x phase "
             "pattern x seed; (iii) full product samples x band-edge pairs; all cases distinct; non-trivial: (i) all, (ii) vectors with a "
             "non-zero magnitude, (iii) bands containing at least one bin"),
    "exhaustive": True,
    "bounds": {"quick": "alpha in {0.01,0.1,0.25,...,2.0}; 12 (fs,fmin,fmax) triples with fmax<=fs/2 and corner ratio >= 30; fftnoise N=2..14; band_limited_noise samples 2..40",
               "thorough": "fftnoise N=2..16 plus structured vectors for N=17..64"},
    "assumptions": ["'between its lower and upper corner' is evaluated a factor 3 inside the effective corners (a first-order corner is 3 dB*alpha/2 off at the corner itself)",
                    "exponents and (fs,fmin,fmax) off the lattice are not covered"],
}
ALPHAS = (0.01, 0.1, 0.25, 0.5, 0.75, 1.0, 1.25, 1.5, 1.75, 2.0)
TRIPLES = ((10.0, 0.01, 5.0), (10.0, 0.1, 5.0), (1000.0, 0.1, 100.0), (1000.0, 1.0, 500.0), (2.0, 1e-3, 1.0), (2.0, 1e-4, 0.2),
           (100.0, 1e-3, 10.0), (48000.0, 10.0, 20000.0), (1.0, 1e-5, 0.5), (1e4, 0.5, 50.0), (3.7, 0.011, 1.3), (250.0, 0.02, 7.0))


def shards(tier, seed):
    out = [{"part": "shape", "alphas": list(ALPHAS[i:i + 2])} for i in range(0, len(ALPHAS), 2)]
    out.append({"part": "white"})
    nmax = 14 if tier == "quick" else 16
    for N in range(2, nmax + 1):
        out.append({"part": "fft", "N": N, "seed": seed})
    out.append({"part": "fftbig", "seed": seed, "sizes": [17, 31, 32, 33, 64, 255, 256, 1023, 1024, 1025] if tier == "quick" else None})
    for lo in range(2, 41, 6):
        out.append({"part": "band", "samples": list(range(lo, min(lo + 6, 41))), "seed": seed})
    # long series (bin spacing far below any fixed comparison tolerance): band edges between bins, all pairs
    for n in (2 ** 20, 2 ** 20 + 1):
        out.append({"part": "band", "samples": [n], "seed": seed, "rates": [1000.0], "edges": [0.0, 99.99976, 100.0002, 300.0004, 499.9997, 500.0]})
    out.sort(key=lambda s: -s.get("N", 0))
    return out


def run_shard(shard):
    import logging
    logging.disable(logging.CRITICAL)
    return {"shape": _shape, "white": _white, "fft": _fft, "fftbig": _fftbig, "band": _band}[shard["part"]](shard)


def replay(case):
    return run_shard(case)["failures"]


def _shape(shard):
    from scipy.signal import freqz
    from speckit import noise

    out = {"evals": 0, "nontrivial": 0, "failures": [], "samples": [], "extra": {"max_abs_dB": 0.0, "skipped_narrow": 0}}
    for alpha, (fs, fmin, fmax) in itertools.product(shard["alphas"], TRIPLES):
        case = dict(shard, alphas=[alpha])
        try:
            g = noise.alpha_noise(fs, fmin, fmax, alpha, init_filter=False, seed=0)
        except Exception as e:  # noqa: BLE001
            out["evals"] += 1
            out["failures"].append(fw.fail(f"shape/raises", f"alpha_noise({fs},{fmin},{fmax},{alpha}) raised {type(e).__name__}: {e}", case))
            continue
        lo, hi = 3 * g.fmin, g.fmax / 3
        if not (hi > lo * 1.5):
            out["extra"]["skipped_narrow"] += 1
            continue
        f = np.logspace(np.log10(lo), np.log10(hi), 400)
        w = 2 * np.pi * f / fs
        H = np.ones_like(f, dtype=complex)
        try:
            # the property speaks about "the shaping filter, evaluated analytically": that needs the object's own
            # coefficient arrays (numerators _a_coeffs, denominators _b_coeffs, output scaling, white-noise rms)
            acs, bcs, scal, rms2 = g._a_coeffs, g._b_coeffs, g._scaling, g._whitenoise.rms ** 2
        except AttributeError:
            out["extra"]["skipped_no_coefficient_access"] = out["extra"].get("skipped_no_coefficient_access", 0) + 1
            continue
        acs, bcs = np.asarray(acs, dtype=float), np.asarray(bcs, dtype=float)
        if acs.ndim == 2 and acs.shape[0] == 2 and acs.shape[1] != 2:   # one column per section instead of one row
            acs, bcs = acs.T, bcs.T
        if not (acs.ndim == 2 and acs.shape == bcs.shape and acs.shape[1] == 2 and np.allclose(bcs[:, 0], 1.0)):
            out["extra"]["skipped_no_coefficient_access"] = out["extra"].get("skipped_no_coefficient_access", 0) + 1
            continue
        for a, b in zip(acs, bcs):
            _, h = freqz(a, b, worN=w)
            H *= h
        psd = np.abs(H) ** 2 * scal ** 2 * rms2 / fs
        dB = 10 * np.log10(psd * f ** alpha)
        out["evals"] += f.size
        out["nontrivial"] += f.size
        worst = float(np.max(np.abs(dB)))
        out["extra"]["max_abs_dB"] = max(out["extra"]["max_abs_dB"], worst)
        if not (worst <= 1.0):
            j = int(np.argmax(np.abs(dB)))
            out["failures"].append(fw.fail(f"shape/alpha={alpha}", f"alpha_noise(fs={fs}, fmin={fmin}, fmax={fmax}, alpha={alpha}): two-sided density x f^alpha = {dB[j]:+.2f} dB at f={f[j]:.6g} Hz (corners {g.fmin:.4g}..{g.fmax:.4g})", case))
        if not out["samples"]:
            out["samples"].append({"alpha": alpha, "fs": fs, "fmin": fmin, "fmax": fmax, "sections": int(g._num_spectra), "max_abs_dB": worst})
    return out


def _white(shard):
    from speckit import noise

    out = {"evals": 0, "nontrivial": 0, "failures": [], "samples": [], "extra": {}}
    for fs, psd in itertools.product((0.5, 1.0, 10.0, 48000.0), (1e-6, 0.5, 1.0, 3.0, 1e4)):
        g = noise.white_noise(fs, psd=psd, seed=1)
        out["evals"] += 1
        out["nontrivial"] += 1
        if not (abs(g.rms ** 2 - psd * fs) <= 1e-12 * psd * fs) or g.fs != fs:
            out["failures"].append(fw.fail("white/rms", f"white_noise(fs={fs}, psd={psd}): rms^2={g.rms ** 2!r} != psd*fs={psd * fs!r}", dict(shard)))
        # the scale enters the samples linearly: the same seed with psd*4 gives exactly twice the samples (which random
        # source is used is the implementation's business)
        x1 = np.asarray(g.get_series(7))
        x2 = np.asarray(noise.white_noise(fs, psd=4 * psd, seed=1).get_series(7))
        if x1.shape != (7,) or not np.allclose(x2, 2 * x1, rtol=1e-12, atol=0):
            out["failures"].append(fw.fail("white/scale", f"white_noise(fs={fs}, psd={psd}): quadrupling psd with the same seed does not double the samples", dict(shard)))
    out["samples"].append({"white": "fs x psd grid", "relation": "rms^2 = psd*fs"})
    return out


def _check_fft(f_in, x, tag, case, out, seen):
    N = f_in.size
    prob = None
    if not (isinstance(x, np.ndarray) and x.shape == (N,) and x.dtype.kind == "f"):
        prob = f"output is not a real array of length {N}: {type(x).__name__} {getattr(x, 'dtype', None)} {getattr(x, 'shape', None)}"
    else:
        X = np.fft.fft(x)
        want = np.abs(f_in).astype(float)
        want[0] = abs(np.real(f_in[0]))
        if N % 2 == 0:
            want[N // 2] = abs(np.real(f_in[N // 2]))
        Np = (N - 1) // 2
        # mirrors carry the magnitude of their positive-frequency partner
        for k in range(1, Np + 1):
            want[N - k] = want[k]
        scale = max(1.0, float(np.max(want)))
        if not np.all(np.abs(np.abs(X) - want) <= 1e-12 * scale * N):
            k = int(np.argmax(np.abs(np.abs(X) - want)))
            prob = f"|DFT(x)[{k}]|={abs(X[k])!r} but prescribed magnitude {want[k]!r}"
    if prob and tag not in seen:
        seen.add(tag)
        out["failures"].append(fw.fail(tag, f"{tag}: N={N} input={f_in.tolist()}: {prob}", case))


def _fft(shard):
    from speckit import noise

    N, seed = shard["N"], shard["seed"]
    out = {"evals": 0, "nontrivial": 0, "failures": [], "samples": [], "extra": {}}
    seen = set()
    half = N // 2 + 1
    only = shard.get("only")
    for mags in itertools.product((0.0, 1.0, 2.5), repeat=half):
        if only is not None and list(mags) != only:
            continue
        m = np.array(mags)
        full = np.empty(N)
        full[:half] = m
        for k in range(1, (N - 1) // 2 + 1):
            full[N - k] = m[k]
        case = dict(shard, only=list(mags))
        for s, pattern in itertools.product(sorted({0, 1, int(seed)}), ("real", "phased", "neg")):
            if pattern == "real":
                f_in = full.astype(complex)
            elif pattern == "neg":
                f_in = (-full).astype(complex)
            else:
                ph = np.exp(1j * (0.7 * np.arange(N) ** 2 + 0.3))
                f_in = full * ph
            keep = f_in.copy()
            try:
                x = noise.fftnoise(f_in, rng=np.random.default_rng(s))
            except Exception as e:  # noqa: BLE001
                out["evals"] += 1
                if f"fft/raises" not in seen:
                    seen.add("fft/raises")
                    out["failures"].append(fw.fail("fft/raises", f"fftnoise raised {type(e).__name__}: {e} for N={N} input {f_in.tolist()}", case))
                continue
            out["evals"] += 1
            out["nontrivial"] += int(np.any(m != 0))
            if not np.array_equal(f_in, keep) and "fft/mutated" not in seen:
                seen.add("fft/mutated")
                out["failures"].append(fw.fail("fft/mutated", f"fftnoise modified its input (N={N})", case))
            if pattern == "phased":
                # DC / Nyquist keep only their real part
                _check_fft(f_in, x, f"fft/magnitude/{'even' if N % 2 == 0 else 'odd'}/{pattern}", case, out, seen)
            else:
                _check_fft(f_in, x, f"fft/magnitude/{'even' if N % 2 == 0 else 'odd'}/{pattern}", case, out, seen)
    out["samples"].append({"N": N, "magnitude vectors": 3 ** half, "patterns": ["real", "phased", "neg"]})
    return out


def _fftbig(shard):
    from speckit import noise

    out = {"evals": 0, "nontrivial": 0, "failures": [], "samples": [], "extra": {}}
    seen = set()
    for N in (shard.get("sizes") or list(range(17, 65)) + [255, 256, 1023, 1024, 1025, 4096, 4097]):
        for kind in ("ones", "ramp", "id1", "comb", "lowpass"):
            k = np.arange(N)
            mag = {"ones": np.ones(N), "ramp": 1.0 + k, "id1": np.abs(records.id1(N)) + 0.1, "comb": (k % 3 == 0) * 2.0,
                   "lowpass": (np.minimum(k, N - k) < N // 5) * 1.0}[kind]
            f_in = mag * np.exp(1j * 0.37 * k ** 2)
            x = noise.fftnoise(f_in, rng=np.random.default_rng(shard["seed"]))
            out["evals"] += 1
            out["nontrivial"] += 1
            _check_fft(f_in, x, f"fft/magnitude/big/{kind}", dict(shard), out, seen)
    out["samples"].append({"N": "17..64", "kinds": 5})
    return out


def _band(shard):
    from speckit import noise

    out = {"evals": 0, "nontrivial": 0, "failures": [], "samples": [], "extra": {"empty_bands": 0}}
    seen = set()
    for n, sr in itertools.product(shard["samples"], shard.get("rates") or (1.0, 8.0, 1e-6, 1e6)):
        grid = np.abs(np.fft.fftfreq(n, d=1.0 / sr))
        pts = sorted(set(grid.tolist()))
        mids = [0.5 * (a + b) for a, b in zip(pts[:-1], pts[1:])]
        if sr in (1.0, 8.0):
            edges = sorted(set(pts + mids + [sr / 2.0]))
        else:  # other units (micro-hertz, mega-hertz): band edges between grid points only - the last bit of a grid frequency is not pinned
            edges = sorted(set(mids + [0.0]))
        if shard.get("edges"):
            edges = [e for e in shard["edges"]]
        for lo, hi in itertools.product(edges, edges):
            if lo > hi:
                continue
            case = dict(shard, samples=[n])
            try:
                x = noise.band_limited_noise(lo, hi, samples=n, samplerate=sr, rng=np.random.default_rng(shard["seed"]))
            except Exception as e:  # noqa: BLE001
                out["evals"] += 1
                if "band/raises" not in seen:
                    seen.add("band/raises")
                    out["failures"].append(fw.fail("band/raises", f"band_limited_noise({lo},{hi},samples={n},samplerate={sr}) raised {type(e).__name__}: {e}", case))
                continue
            out["evals"] += 1
            X = np.fft.fft(x)
            inside = (grid >= lo) & (grid <= hi)
            out["nontrivial"] += int(inside.any())
            out["extra"]["empty_bands"] += int(not inside.any())
            prob = None
            if not (x.shape == (n,) and x.dtype.kind == "f"):
                prob = "output is not a real series of the requested length"
            elif np.any(np.abs(X[~inside]) > 1e-12 * n):
                k = int(np.argmax(np.where(~inside, np.abs(X), 0)))
                prob = f"power outside the band: |DFT[{k}]|={abs(X[k])!r} at |f|={grid[k]!r}"
            elif np.any(np.abs(np.abs(X[inside]) - 1.0) > 1e-12 * n):
                k = int(np.argmax(np.where(inside, np.abs(np.abs(X) - 1), 0)))
                prob = f"in-band magnitude |DFT[{k}]|={abs(X[k])!r} != 1 at |f|={grid[k]!r}"
            if prob:
                key = "band/" + prob.split(":")[0].split(" ")[0]
                if key not in seen:
                    seen.add(key)
                    out["failures"].append(fw.fail(key, f"band_limited_noise({lo!r},{hi!r},samples={n},samplerate={sr}): {prob}", case))
    out["samples"].append({"samples": shard["samples"], "samplerates": list(shard.get("rates") or (1.0, 8.0, 1e-6, 1e6))})
    return out
