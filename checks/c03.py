"""C03 - see checks/sched.py (shared scheduler sweep) and mc/ref/schedulers_spec.py."""
from checks import sched

PROPERTY = "C03"
META = {
    "level": "model_checking",
    "rule": ("full product of the configuration lattice N x fs x olap x bmin x Lmin x Jdes x Kdes (see bounds) for the four "
             "schedulers, inadmissible combinations filtered by the property's quantifier and counted; every plan is checked bin by "
             "bin; a case is non-trivial when the plan has >= 2 bins; cases are distinct lattice points"),
    "exhaustive": True,
    "bounds": {
        "quick": "N in 8..40 + {100,127,1000}; fs in {1,0.37,1000}; olap in {0,.25,.3,.5,2/3,.75,.9,.99}; bmin in {1,1.5,2,3.7,N/4,N/2-.01}; Lmin in {1,2,5,N//4,N//2,N}; Jdes in {1,2,3,5,10,50,500}; Kdes in {1,2,5,10,100}",
        "thorough": "N in 8..64 + {100,127,1000,4096,1e4,1e5}; fs in {1,2,0.37,1000}; Jdes adds 100; same other axes",
    },
    "assumptions": ["configurations off the lattice are not covered (small-scope hypothesis: all clamp interactions occur for N<=64)",
                    "a scheduler call that does not return within 60 s is reported as a failure of that call"],
}


def shards(tier, seed):
    return sched.shards_for(tier, seed, PROPERTY)


def run_shard(shard):
    return sched.run_shard_for(shard)


def replay(case):
    return sched.replay_for(case)
