"""
C17 - noise generators are seed-reproducible continuous streams (engine E2).

BFS over all histories of get_series(n), n in {0,1,2,3,5}, total length <= T_max,
on real generator objects rebuilt from the history; states deduplicated by a hash
of the complete object state (RNG state, filter state, buffer, coefficients).
Invariants on every transition: the block returned equals the corresponding slice
of one get_series(T_max) from a twin with the same seed (exact equality), and the
state reached after t samples does not depend on the chunking.  Plus get_sample
runs and the filter cascade against a direct-form reference on all inputs over
the alphabet.
"""
import itertools

import numpy as np

from mc import framework as fw, histories, records

PROPERTY = "C17"
META = {
    "level": "model_checking",
    "rule": ("explicit-state BFS over operation histories (alphabet get_series(n), n in {0,1,2,3,5}; total <= T_max; at most two "
             "consecutive zero-length requests) for every generator instance in the stated set; transitions = real calls on objects "
             "rebuilt from the history; states deduplicated by complete-state hash; cascade part: every input over {-2,0,1}^n, n<=6, "
             "every split point"),
    "exhaustive": True,
    "bounds": {"quick": "T_max=12 with state merging, all histories with total <= 6 without merging; generators white(2 parameter sets), red(2), alpha 0.5/1.3/2.0, pink; init_filter False/True; seeds {0,1,VERIF_SEED}",
               "thorough": "T_max=20 merged, total <= 9 unmerged"},
    "assumptions": ["two states with equal hashes have equal futures: the hash covers every attribute in vars(generator) recursively",
                    "seeds and parameters outside the stated set are not covered"],
}
ALPH = (0, 1, 2, 3, 5)


def specs():
    from speckit import noise

    d = {
        "white/a": lambda s: noise.white_noise(10.0, psd=2.0, seed=s),
        "white/b": lambda s: noise.white_noise(1.0, psd=0.5, seed=s),
        "red/a/raw": lambda s: noise.red_noise(10.0, 1.0, init_filter=False, seed=s),
        "red/a/settled": lambda s: noise.red_noise(10.0, 1.0, init_filter=True, seed=s),
        "red/b/raw": lambda s: noise.red_noise(100.0, 20.0, init_filter=False, seed=s),
        "pink/raw": lambda s: noise.pink_noise(10.0, 0.1, 2.0, init_filter=False, seed=s),
        "pink/settled": lambda s: noise.pink_noise(10.0, 0.5, 4.0, init_filter=True, seed=s),
    }
    for a in (0.5, 1.3, 2.0):
        d[f"alpha{a}/raw"] = (lambda s, a=a: noise.alpha_noise(10.0, 0.1, 2.0, a, init_filter=False, seed=s))
        d[f"alpha{a}/settled"] = (lambda s, a=a: noise.alpha_noise(20.0, 1.0, 8.0, a, init_filter=True, seed=s))
    return d


def shards(tier, seed):
    out = []
    T = 12 if tier == "quick" else 20
    seeds = sorted({0, 1, int(seed)})
    for name in specs():
        for s in seeds:
            out.append({"part": "bfs", "gen": name, "seed": s, "T": T})
        # the same search without state merging (every history is its own state) to a smaller bound:
        # independent of the argument that equal hashes have equal futures
        out.append({"part": "bfs", "gen": name, "seed": seeds[-1], "T": 6 if tier == "quick" else 9, "nomerge": True})
    for name in specs():
        out.append({"part": "sample", "gen": name, "seed": seeds[-1]})
    out.append({"part": "cascade"})
    out.append({"part": "xproc", "seed": seeds[-1]})
    for name in specs():
        out.append({"part": "long", "gen": name, "seed": seeds[-1]})
    return out


def run_shard(shard):
    import logging
    logging.disable(logging.CRITICAL)
    return {"bfs": _bfs, "sample": _sample, "cascade": _cascade, "hist": _hist, "xproc": _xproc, "long": _long}[shard["part"]](shard)


def replay(case):
    return run_shard(case)["failures"]


def _bfs(shard):
    make0 = specs()[shard["gen"]]
    seed, T = shard["seed"], shard["T"]
    ref = np.asarray(make0(seed).get_series(T))
    ref2 = np.asarray(make0(seed).get_series(T))
    out = {"evals": 0, "nontrivial": 0, "failures": [], "samples": [], "extra": {}}
    case0 = {"part": "hist", "gen": shard["gen"], "seed": seed, "T": T}
    if not np.array_equal(ref, ref2):
        out["failures"].append(fw.fail(f"twin/{shard['gen']}", f"two {shard['gen']} instances with seed {seed} differ: {ref.tolist()} vs {ref2.tolist()}", dict(case0, hist=[T])))
    by_t = {}

    def enabled(h):
        t = sum(h)
        ops = []
        for n in ALPH:
            if t + n > T:
                continue
            if n == 0 and len(h) >= 2 and h[-1] == 0 and h[-2] == 0:
                continue
            ops.append(n)
        return ops

    def apply(g, n):
        return np.asarray(g.get_series(n))

    def canon(g, h):
        if shard.get("nomerge"):
            return tuple(h)
        return (sum(h), histories.state_hash(g))

    def invariant(h, op, g, obs, allobs):
        t = sum(h)
        res = []
        want = ref[t:t + op]
        if obs.shape != want.shape or obs.dtype != np.float64 or not np.array_equal(obs, want):
            res.append((f"stream/{shard['gen']}/n={op}", f"{shard['gen']} seed={seed}: after blocks {list(h)} the request get_series({op}) returned {obs.tolist()} but samples {t}..{t + op - 1} of a single request are {want.tolist()}"))
        k = histories.state_hash(g)
        prev = by_t.setdefault(t + op, (k, list(h) + [op]))
        if prev[0] != k:
            res.append((f"state/{shard['gen']}", f"{shard['gen']} seed={seed}: state after {t + op} samples depends on the chunking: {prev[1]} vs {list(h) + [op]}", {"other": prev[1]}))
        return res

    ex = histories.Explorer(lambda: make0(seed), apply, enabled, canon, invariant).run()
    for item in ex.failures:
        key, msg, hist = item[:3]
        out["failures"].append(fw.fail(key, msg, dict(case0, hist=hist, **(item[3] if len(item) > 3 else {}))))
    out["evals"] = ex.transitions
    out["nontrivial"] = ex.transitions
    out["extra"] = {"states": ex.states, "transitions": ex.transitions, "traces_validated_against_impl": ex.replayed,
                    "max_depth": ex.max_depth, "generator_instances": 1, "cap_hit": int(ex.capped),
                    "expected_states_if_continuous": 0 if shard.get("nomerge") else T + 1, "unmerged_histories": ex.states if shard.get("nomerge") else 0}
    out["samples"] = [{"gen": shard["gen"], "seed": seed, "history": h} for h in ex.samples[:2]]
    return out


def _hist(case):
    """Replay of one history without the explorer."""
    make0 = specs()[case["gen"]]
    T = case["T"]
    ref = np.asarray(make0(case["seed"]).get_series(T))
    g = make0(case["seed"])
    t = 0
    fails = []
    for n in case["hist"]:
        obs = np.asarray(g.get_series(n))
        if not np.array_equal(obs, ref[t:t + n]):
            fails.append(fw.fail(f"stream/{case['gen']}/n={n}", f"history {case['hist']}: block of {n} at offset {t} = {obs.tolist()} != {ref[t:t + n].tolist()}", case))
            break
        t += n
    if case.get("other") is not None and not fails:
        # two chunkings of the same number of samples must leave the generator in the same state
        g2 = make0(case["seed"])
        for n in case["other"]:
            g2.get_series(n)
        if histories.state_hash(g) != histories.state_hash(g2):
            fails.append(fw.fail(f"state/{case['gen']}", f"state after {t} samples depends on the chunking: {case['hist']} vs {case['other']}", case))
    return {"evals": 1, "nontrivial": 1, "failures": fails, "samples": []}


def _sample(shard):
    make0 = specs()[shard["gen"]]
    seed = shard["seed"]
    out = {"evals": 0, "nontrivial": 0, "failures": [], "samples": [], "extra": {}}
    for run in (1, 5, 4096, 4097):
        g = make0(seed)
        got = np.array([g.get_sample() for _ in range(run)])
        # the buffered sampler draws blocks of 4096 from the same stream
        want = np.asarray(make0(seed).get_series(max(run, 1)))
        out["evals"] += 1
        out["nontrivial"] += 1
        if not np.array_equal(got, want[:run]):
            j = int(np.nonzero(got != want[:run])[0][0])
            out["failures"].append(fw.fail(f"sample/{shard['gen']}", f"{shard['gen']} seed={seed}: get_sample run of {run}: sample {j} = {got[j]!r} but get_series gives {want[j]!r}", dict(shard)))
            break
    out["samples"].append({"gen": shard["gen"], "get_sample runs": [1, 5, 4096, 4097]})
    return out


def _cascade(shard):
    from scipy.signal import lfilter
    from speckit import noise

    out = {"evals": 0, "nontrivial": 0, "failures": [], "samples": [], "extra": {}}
    # the cascade routine is an internal function: find it by its documented name, else by signature
    cascade = getattr(noise, "_numba_lfilter_cascade", None)
    if cascade is None:
        for nm in dir(noise):
            fobj = getattr(noise, nm)
            if "cascade" in nm.lower() and callable(fobj) and not isinstance(fobj, type):
                try:
                    y_, z_ = fobj(np.zeros(2), np.array([[1.0, 0.0]]), np.array([[1.0, 0.0]]), np.zeros((1, 1)))
                    if np.shape(y_) == (2,):
                        cascade = fobj
                        break
                except Exception:  # noqa: BLE001
                    continue
    if cascade is None:
        out["evals"] = 1
        out["extra"]["cascade_routine_not_found"] = 1
        out["samples"].append({"cascade": "no standalone cascade routine found; covered only through the generators' streams"})
        return out
    g = noise.alpha_noise(10.0, 0.1, 2.0, 1.3, init_filter=False, seed=0)
    # the stand-alone routine is internal: only drive it directly if the generator itself uses the documented convention
    # (one row [a0, a1] / [1, -b1] per section, one state per section as an (n, 1) array, 4 positional arguments)
    try:
        ok_layout = (np.ndim(g._a_coeffs) == 2 and np.shape(g._a_coeffs)[1] == 2 and np.shape(g._zi_states) == (np.shape(g._a_coeffs)[0], 1))
        if ok_layout:
            yy_, zz_ = cascade(np.zeros(3), np.array(g._a_coeffs, copy=True), np.array(g._b_coeffs, copy=True), np.array(g._zi_states, copy=True))
            ok_layout = np.shape(yy_) == (3,) and np.shape(zz_) == np.shape(g._zi_states)
    except Exception:  # noqa: BLE001
        ok_layout = False
    if not ok_layout:
        out["evals"] = 1
        out["extra"]["cascade_routine_not_found"] = 1
        out["samples"].append({"cascade": "the cascade routine does not follow the documented internal convention; covered only through the generators' streams"})
        return out
    try:
        real = (np.array(g._a_coeffs, copy=True), np.array(g._b_coeffs, copy=True))
    except AttributeError:  # coefficients stored differently: use a typical pink-noise cascade instead
        real = (np.array([[1.2, -0.9], [1.1, -0.7], [1.05, -0.2]]), np.array([[1.0, -0.95], [1.0, -0.8], [1.0, -0.3]]))
    sets = [real,
            (np.array([[0.5, -0.25], [1.5, 0.3], [0.9, 0.0]]), np.array([[1.0, -0.5], [1.0, 0.7], [1.0, -0.95]]))]
    seen = set()
    for si, (A, B) in enumerate(sets):
        ns = A.shape[0]
        for n in range(0, 7):
            for x in records.sigma_all(n) if n else [np.zeros(0)]:
                for split in range(0, n + 1):
                    zi = np.linspace(0.3, -0.2, ns).reshape(ns, 1).copy()
                    zr = [np.array([zi[i, 0]]) for i in range(ns)]
                    parts, rparts = [], []
                    for seg in (x[:split], x[split:]):
                        seg = np.ascontiguousarray(seg, dtype=np.float64)
                        y, zi = cascade(seg, A, B, zi)
                        parts.append(np.asarray(y))
                        r = seg.copy()
                        for i in range(ns):
                            if r.size:
                                r, zr[i] = lfilter(A[i], B[i], r, zi=zr[i])
                        rparts.append(r)
                    got, want = np.concatenate(parts), np.concatenate(rparts)
                    out["evals"] += 1
                    out["nontrivial"] += int(n > 0)
                    ok = got.shape == want.shape and np.allclose(got, want, rtol=1e-12, atol=1e-13) and \
                        np.allclose(zi[:, 0], np.array([z[0] for z in zr]), rtol=1e-12, atol=1e-13)
                    if not ok and f"cascade/{si}" not in seen:
                        seen.add(f"cascade/{si}")
                        out["failures"].append(fw.fail(f"cascade/{si}", f"coefficient set {si}: input {x.tolist()} split at {split}: cascade {got.tolist()} (state {zi[:, 0].tolist()}) != direct-form reference {want.tolist()} (state {[z[0] for z in zr]})", dict(shard)))
    out["samples"].append({"cascade inputs": "{-2,0,1}^n, n<=6, all split points", "sections": [s[0].shape[0] for s in sets]})
    return out


XPROC = r"""
import sys, hashlib, json, logging
logging.disable(logging.CRITICAL)
sys.path.insert(0, sys.argv[1])
from mc import framework as fw
fw.pin_env("1")
import numpy as np
from checks.c17 import specs
out = {}
for name, mk in specs().items():
    for s in (0, int(sys.argv[2])):
        out[f"{name}/{s}"] = hashlib.sha1(np.asarray(mk(s).get_series(24)).tobytes()).hexdigest()[:16]
print(json.dumps(out))
"""


def _xproc(shard):
    """Two instances with the same seed in DIFFERENT interpreter processes (different PYTHONHASHSEED): same samples."""
    import json, os, subprocess, sys

    out = {"evals": 0, "nontrivial": 0, "failures": [], "samples": [], "extra": {}}
    digests = []
    for hs in ("1", "2", "random"):
        env = dict(os.environ, PYTHONHASHSEED=hs, VERIF_ROOT=fw.ROOT)
        p = subprocess.run([sys.executable, "-c", XPROC, fw.ROOT, str(shard["seed"])], capture_output=True, text=True, env=env, cwd=fw.ROOT, timeout=1800)
        if p.returncode != 0:
            raise RuntimeError(f"cross-process worker failed: {p.stderr[-1500:]}")
        digests.append(json.loads(p.stdout.splitlines()[-1]))
    for k in digests[0]:
        out["evals"] += 1
        out["nontrivial"] += 1
        vals = [d[k] for d in digests]
        if len(set(vals)) != 1:
            out["failures"].append(fw.fail(f"xproc/{k.split('/')[0]}", f"generator {k.rsplit('/', 1)[0]} with seed {k.rsplit('/', 1)[1]} produces different samples in different interpreter processes (PYTHONHASHSEED 1, 2, random): digests {vals}", dict(shard)))
    out["samples"].append({"xproc": "same seed in 3 interpreter processes with different hash randomisation"})
    return out


def _long(shard):
    """Requests far longer than any internal block or buffer: one request of n samples equals the concatenation of the same n
    samples drawn in blocks of 4096 / 50000 / one-big-plus-rest, and the stand-alone cascade equals the reference sections."""
    from scipy.signal import lfilter
    from speckit import noise

    make0 = specs()[shard["gen"]]
    seed = shard["seed"]
    out = {"evals": 0, "nontrivial": 0, "failures": [], "samples": [], "extra": {}}
    for n in (65536 + 5, 70000, 131072 + 4097, 200001):
        whole = np.asarray(make0(seed).get_series(n))
        for blocks in ([4096] * (n // 4096) + [n % 4096], [50000] * (n // 50000) + [n % 50000], [n - 7, 7], [1, n - 1]):
            g = make0(seed)
            parts = [np.asarray(g.get_series(b)) for b in blocks if b >= 0]
            cat = np.concatenate(parts)
            out["evals"] += 1
            out["nontrivial"] += 1
            if cat.shape != whole.shape or not np.array_equal(cat, whole):
                j = int(np.nonzero(cat != whole)[0][0]) if cat.shape == whole.shape else -1
                out["failures"].append(fw.fail(f"long/{shard['gen']}", f"{shard['gen']} seed={seed}: one request of {n} samples differs from the same samples drawn in blocks {blocks[:3]}...: first difference at sample {j}", dict(shard)))
                break
    if shard["gen"] in ("white/a", "red/a/raw", "pink/raw"):
        # one request beyond 2^24 samples (the size at which array libraries start to split work)
        n = 2 ** 24 + 1000
        whole = np.asarray(make0(seed).get_series(n))
        for blocks in ([2 ** 23, 2 ** 23, 1000], [n - 7, 7]):
            g = make0(seed)
            cat = np.concatenate([np.asarray(g.get_series(b)) for b in blocks])
            out["evals"] += 1
            out["nontrivial"] += 1
            if cat.shape != whole.shape or not np.array_equal(cat, whole):
                j = int(np.nonzero(cat != whole)[0][0]) if cat.shape == whole.shape else -1
                out["failures"].append(fw.fail(f"long/{shard['gen']}/2^24", f"{shard['gen']} seed={seed}: one request of {n} samples differs from the same samples drawn in blocks {blocks}: first difference at sample {j}", dict(shard)))
                break
            del cat
        # ... and the stream continues correctly after such a request
        g1, g2 = make0(seed), make0(seed)
        g1.get_series(n)
        for b in (2 ** 23, 2 ** 23, 1000):
            g2.get_series(b)
        a1, a2 = np.asarray(g1.get_series(50)), np.asarray(g2.get_series(50))
        out["evals"] += 1
        if not np.array_equal(a1, a2):
            out["failures"].append(fw.fail(f"long/{shard['gen']}/2^24-after", f"{shard['gen']} seed={seed}: the 50 samples following a request of {n} differ from those following the same samples drawn in three blocks", dict(shard)))
        del whole
    if shard["gen"].startswith("alpha1.3/raw"):
        cascade = getattr(noise, "_numba_lfilter_cascade", None)
        try:
            g_ = make0(seed)
            if cascade is not None and not (np.ndim(g_._a_coeffs) == 2 and np.shape(g_._a_coeffs)[1] == 2 and np.shape(g_._zi_states) == (np.shape(g_._a_coeffs)[0], 1)):
                cascade = None
            if cascade is not None:
                cascade(np.zeros(3), np.array([[1.0, 0.0]]), np.array([[1.0, 0.0]]), np.zeros((1, 1)))
        except Exception:  # noqa: BLE001
            cascade = None
        if cascade is not None:
            A = np.array([[1.2, -0.9], [1.1, -0.7], [1.05, -0.2]])
            B = np.array([[1.0, -0.95], [1.0, -0.8], [1.0, -0.3]])
            x = records.id1(70003)
            y, zf = cascade(np.ascontiguousarray(x), A, B, np.zeros((3, 1)))
            r = x.copy()
            zr = []
            for i in range(3):
                r, z = lfilter(A[i], B[i], r, zi=np.zeros(1))
                zr.append(z[0])
            out["evals"] += 1
            out["nontrivial"] += 1
            if not (np.allclose(y, r, rtol=1e-10, atol=1e-10) and np.allclose(np.asarray(zf)[:, 0], zr, rtol=1e-9, atol=1e-10)):
                j = int(np.argmax(np.abs(np.asarray(y) - r)))
                out["failures"].append(fw.fail("long/cascade", f"cascade on 70003 samples differs from the reference sections (largest difference at sample {j}: {np.asarray(y)[j]!r} vs {r[j]!r})", dict(shard)))
    out["samples"].append({"long": shard["gen"], "n": [65541, 70000, 135169, 200001]})
    return out
