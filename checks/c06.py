"""
C06 - calibration: sinusoid power, ENBW, scaling laws.

(i)  x = A cos(2 pi f0 n/fs + phi) analysed at f0 with compute_single_bin over the
     full lattice L x bin position x phase x amplitude x psll x fs x order x N.
(ii) scaling of a channel by c and relabelling of fs by a, on an analysis lattice.
"""
import itertools

import numpy as np

from mc import ana, framework as fw
from mc.ref import estimator as est
from mc.ref import windows as refwin

PROPERTY = "C06"
META = {
    "level": "model_checking",
    "rule": ("(i) full product L x f0-position x phase x amplitude x psll x fs x order x N, positions filtered by the property's "
             "'at least a main-lobe width from 0 and Nyquist'; (ii) full product of analysis configurations x scale factors; "
             "non-trivial: (i) every case (A^2/2 > 0), (ii) bins whose density exceeds 1e6x its rounding tolerance"),
    "exhaustive": True,
    "bounds": {"quick": "(i) L=16..128 every integer + {1000, 4096}; 4 positions; 4 phases; A in {1e-3,1,1e3}; psll {60,100,150,200}; fs {1,1000}; order {-1,0}; N in {L,3L+1}. (ii) N in {24,64}, schedulers ltf+vectorized_ltf, 3 windows, 4 orders, c in {-3,.5,1e3,1e-3,1e-12,1e-30,1e12} on x, y, both; a in {.5,4,1024} exact and {3,1000} when the plan is unchanged",
               "thorough": "(i) L=16..512 every integer + {1024,4096}"},
    "assumptions": ["(i) tolerance 2r+r^2 with r = 10^(-(psll-1)/20) (order -1) or 3r (order 0): the negative-frequency image and the removed mean seen through a side lobe >= psll-1 dB down, plus the rounding bound of the recurrence"],
}
PSLL = (60.0, 100.0, 150.0, 200.0)


def shards(tier, seed):
    Ls = list(range(16, 129)) + [1000, 4096, 70001] if tier == "quick" else list(range(16, 513)) + [1024, 4096, 70001]
    out = []
    step = 4 if tier == "quick" else 8
    small = [L for L in Ls if L < 1000]
    for i in range(0, len(small), step):
        out.append({"part": "sin", "Ls": small[i:i + step]})
    for L in Ls:
        if L >= 1000:   # long segments: one shard per psll
            for psll in PSLL:
                out.append({"part": "sin", "Ls": [L], "psll": [psll]})
    # one bin with more than 2^25 gathered samples on the NumPy backend (1535 half-overlapping segments of 65536 samples)
    out.append({"part": "sin1", "L": 65536, "psll": 200.0, "b": 12345.3, "phi": 0.7, "A": 1.0, "fs": 1.0, "order": -1, "N": 65536 * 768, "backend": "numpy", "Ls": [65536]})
    for N in (24, 64):
        for sch in ("ltf", "vectorized_ltf"):
            for win in ("kaiser200", "hann", "custom"):
                out.append({"part": "scale", "N": N, "sched": sch, "win": win, "seed": seed})
    out.sort(key=lambda s: -(max(s["Ls"]) ** 2 if s["part"] == "sin" else 0))
    return out


def run_shard(shard):
    ana.quiet()
    if shard["part"] == "sin":
        return _sin(shard)
    if shard["part"] == "sin1":
        return _sin_cases([shard])
    return _scale(shard)


def replay(case):
    return run_shard(case)["failures"]


def _sin(shard):
    cases = []
    for L in shard["Ls"]:
        for psll in shard.get("psll", PSLL):
            alpha = refwin.kaiser_alpha_ref(psll)
            m = np.sqrt(1 + alpha * alpha)
            pos = [m + 1.0, m + 1.37, L / 4 + 0.5, L / 2 - m - 1.2]
            pos = sorted({round(b, 9) for b in pos if m <= b <= L / 2 - m})
            for b, phi, A, fs, order, Nk in itertools.product(pos, (0.0, np.pi / 3, np.pi / 2, 2.1), (1e-3, 1.0, 1e3),
                                                               (1.0, 1000.0) + ((3e-8, 4e7) if L in (17, 64, 129) else ()), (-1, 0), ("L", "3L+1")):
                cases.append({"part": "sin1", "L": L, "psll": psll, "b": b, "phi": phi, "A": A, "fs": fs, "order": order,
                              "N": L if Nk == "L" else 3 * L + 1})
    return _sin_cases(cases)


def _sin_cases(cases):
    out = {"evals": 0, "nontrivial": 0, "failures": [], "samples": [], "extra": {"max_rel_err_over_bound": 0.0}}
    seen = set()
    worst = 0.0
    for c in cases:
        L, psll, b, phi, A, fs, order, N = c["L"], c["psll"], c["b"], c["phi"], c["A"], c["fs"], c["order"], c["N"]
        f0 = b * fs / L
        n = np.arange(N)
        x = A * np.cos(2 * np.pi * b * n / L + phi)
        try:
            an = ana.make_analyzer(x, fs, win="kaiser", psll=psll, order=order, olap=0.5, backend=c.get("backend", "numba"))
            r = an.compute_single_bin(f0, L=L)
            ps = float(r.ps[0])
            enbw = float(r.ENBW[0])
            # the same bin requested through a resolution that is not fs/integer but rounds to the same L
            fres_req = fs / (L + 0.3)
            r2 = an.compute_single_bin(f0, fres=fres_req)
            if int(r2.L[0]) == L:
                ps2, enbw2 = float(r2.ps[0]), float(r2.ENBW[0])
                if not (abs(ps2 - ps) <= 1e-12 * abs(ps) and abs(enbw2 - enbw) <= 1e-12 * enbw):
                    key = "sin/fres-request"
                    if key not in seen:
                        seen.add(key)
                        out["failures"].append(fw.fail(key, f"{key}: single bin at the same f and L requested via fres={fres_req!r} gives ps={ps2!r}, ENBW={enbw2!r} but via L={L}: ps={ps!r}, ENBW={enbw!r} :: {c}", c))
        except Exception as e:  # noqa: BLE001
            out["evals"] += 1
            out["failures"].append(fw.fail(f"sin/raises/order={order}", f"sinusoid case {c} raised {type(e).__name__}: {e}", c))
            continue
        rho = 10 ** (-(psll - 1) / 20.0) * (1 if order == -1 else 3)
        rnd = 4 * 64 * est.U64 * (L + 4) ** 2
        bound = 2 * rho + rho * rho + rnd + 1e-9
        err = abs(ps / (A * A / 2) - 1)
        out["evals"] += 1
        out["nontrivial"] += 1
        worst = max(worst, err / bound)
        w = refwin.build("kaiser", L, psll)
        enbw_ref = fs * float(np.sum(w * w)) / float(np.sum(w)) ** 2
        key = None
        if not (err <= bound):
            key = f"sin/ps/order={order}/psll={psll:g}"
            msg = f"{key}: ps={ps!r} vs A^2/2={A * A / 2!r}: rel err {err:.3e} > bound {bound:.3e} for {c}"
        elif not (abs(enbw - enbw_ref) <= 1e-10 * enbw_ref):
            key = f"sin/ENBW/psll={psll:g}"
            msg = f"{key}: ENBW={enbw!r} vs fs*sum(w^2)/(sum w)^2={enbw_ref!r} for {c}"
        if key and key not in seen:
            seen.add(key)
            out["failures"].append(fw.fail(key, msg, c))
        if not out["samples"]:
            out["samples"].append({"case": c, "ps": ps, "expected": A * A / 2, "ENBW": enbw})
    out["extra"]["max_rel_err_over_bound"] = worst
    return out


def _dens_tol(x, y, pf, j, winvec, fs, S2):
    tol = est.tolerances(x, y, pf["D"][j], int(pf["L"][j]), winvec)
    k = 2.0 / (fs * S2)
    return tol[0] * k, tol[1] * k, tol[2] * k


def _scale(shard):
    N, sch, win, seed = shard["N"], shard["sched"], shard["win"], shard["seed"]
    fs = 2.0
    wkw, wref = ana.win_spec(win)
    out = {"evals": 0, "nontrivial": 0, "failures": [], "samples": [], "extra": {"fs_relabel_plan_changed": 0}}
    seen = set()

    def add(key, msg, case):
        if key not in seen:
            seen.add(key)
            out["failures"].append(fw.fail(key, f"{key}: {msg} :: {case}", dict(case, part="scale1")))

    only = shard.get("only")
    for order, backend, (rx, ry) in itertools.product((-1, 0, 1, 2), ("numba", "numpy"), (("id1", "id2"), ("seed0", "seed1"))):
        if only and (order, backend, rx) != (only["order"], only["backend"], only["rx"]):
            continue
        x, y = ana.data_for("cross", N, rx, ry, seed)
        kw = dict(olap=0.5, Jdes=10, Kdes=4, Lmin=2, order=order, scheduler=sch, backend=backend, **wkw)
        base = ana.make_analyzer(np.stack([x, y]), fs, **kw).compute()
        basex = ana.make_analyzer(x.copy(), fs, **kw).compute()
        pf = ana.plan_fields(base)
        nf = len(pf["f"])
        case0 = {"N": N, "sched": sch, "win": win, "seed": seed, "only": {"order": order, "backend": backend, "rx": rx}}
        for c, who in itertools.product((-3.0, 0.5, 1e3, 1e-3, 1e-12, 1e-30, 1e12), ("x", "y", "both")):
            xs = x * c if who in ("x", "both") else x
            ys = y * c if who in ("y", "both") else y
            r = ana.make_analyzer(np.stack([xs, ys]), fs, **kw).compute()
            cx = c if who in ("x", "both") else 1.0
            cy = c if who in ("y", "both") else 1.0
            for j in range(nf):
                wv = wref(int(pf["L"][j]))
                S2 = float(np.sum(wv * wv))
                tx, ty, txy = _dens_tol(xs, ys, pf, j, wv, fs, S2)
                out["evals"] += 1
                chk = [("Gxx", r.Gxx[j], base.Gxx[j] * cx * cx, tx), ("Gyy", r.Gyy[j], base.Gyy[j] * cy * cy, ty),
                       ("Gxy", r.Gxy[j], base.Gxy[j] * cx * cy, txy)]
                big = abs(r.Gxx[j]) > 1e6 * tx and abs(r.Gyy[j]) > 1e6 * ty and abs(r.Gxy[j]) > 1e6 * txy
                out["nontrivial"] += int(big)
                for nm, a, b, t in chk:
                    if not (abs(a - b) <= 4 * t + 1e-12 * abs(b)):
                        add(f"scale/{nm}/{who}", f"c={c} on {who}: {nm}[{j}]={a!r} expected {b!r}", case0)
                if big:
                    if not (abs(r.coh[j] - base.coh[j]) <= 1e-6):
                        add(f"scale/coh/{who}", f"c={c} on {who}: coh[{j}]={r.coh[j]!r} vs {base.coh[j]!r}", case0)
                    ratio = cy / cx
                    if not (abs(r.Hxy[j] - base.Hxy[j] * ratio) <= 1e-6 * abs(base.Hxy[j] * ratio)):
                        add(f"scale/Hxy/{who}", f"c={c} on {who}: Hxy[{j}]={r.Hxy[j]!r} vs {base.Hxy[j] * ratio!r}", case0)
            if who == "x":
                ra = ana.make_analyzer(xs.copy(), fs, **kw).compute()
                for j in range(nf):
                    out["evals"] += 1
                    wv = wref(int(pf["L"][j]))
                    tx, _, _ = _dens_tol(xs, None, pf, j, wv, fs, float(np.sum(wv * wv)))
                    if not (abs(ra.psd[j] - basex.psd[j] * c * c) <= 4 * tx + 1e-12 * abs(ra.psd[j])):
                        add("scale/psd", f"c={c}: psd[{j}]={ra.psd[j]!r} expected {basex.psd[j] * c * c!r}", case0)
                    if not (abs(ra.asd[j] ** 2 - ra.psd[j]) <= 1e-12 * abs(ra.psd[j]) + 1e-300):
                        add("scale/asd", f"asd^2 != psd at bin {j}", case0)
        # relabelling fs -> a*fs
        for a in (0.5, 4.0, 1024.0, 3.0, 1000.0):
            r = ana.make_analyzer(np.stack([x, y]), fs * a, **kw).compute()
            p2 = ana.plan_fields(r)
            same = (len(p2["f"]) == nf and np.array_equal(p2["L"], pf["L"]) and all(np.array_equal(u, v) for u, v in zip(p2["D"], pf["D"])))
            exact = a in (0.5, 4.0, 1024.0)
            if not same:
                if exact:
                    add("fs/plan", f"relabelling fs by the power of two a={a} changed the plan (L/D)", case0)
                else:
                    out["extra"]["fs_relabel_plan_changed"] += 1
                continue
            out["evals"] += nf
            for j in range(nf):
                wv = wref(int(pf["L"][j]))
                S2 = float(np.sum(wv * wv))
                tx, ty, txy = _dens_tol(x, y, pf, j, wv, fs * a, S2)
                big = abs(r.Gxx[j]) > 1e6 * tx
                out["nontrivial"] += int(big)
                rt = 1e-13 if exact else 1e-9
                ok = (abs(r.f[j] - a * base.f[j]) <= rt * abs(r.f[j])
                      and abs(r.ENBW[j] - a * base.ENBW[j]) <= 1e-12 * abs(r.ENBW[j])
                      and abs(r.Gxx[j] - base.Gxx[j] / a) <= 4 * tx + 1e-12 * abs(r.Gxx[j])
                      and abs(r.Gyy[j] - base.Gyy[j] / a) <= 4 * ty + 1e-12 * abs(r.Gyy[j])
                      and abs(r.Gxy[j] - base.Gxy[j] / a) <= 4 * txy + 1e-12 * abs(r.Gxy[j]))
                if not ok:
                    add("fs/law", f"fs*{a}: bin {j}: f {r.f[j]!r} vs {a * base.f[j]!r}, ENBW {r.ENBW[j]!r} vs {a * base.ENBW[j]!r}, Gxx {r.Gxx[j]!r} vs {base.Gxx[j] / a!r}", case0)
        if not out["samples"]:
            out["samples"].append({"case": case0, "nf": nf, "Gxx": base.Gxx.tolist()[:3]})
    return out
