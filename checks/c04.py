"""C04 - log-spaced monotone resolution, averaging honours the overlap; plus the
vectorised-vs-iterative bin count and force_target_nf clauses."""
import logging

import numpy as np

from checks import sched
from mc import framework as fw
from mc import pairhist

PROPERTY = "C04"
META = {
    "level": "model_checking",
    "rule": ("same lattice sweep as C02/C03 with the C04 predicates (monotone L and navg, log spacing and Kdes where unclamped, "
             "nearest-integer navg with cap, even spreading, reported overlap, vectorised-vs-iterative bin count); in addition every "
             "target bin count in the stated range is forced through SpectrumAnalyzer(force_target_nf=True) for each scheduler; "
             "non-trivial = plan with >= 2 bins / a forced search that returned a plan"),
    "exhaustive": True,
    "bounds": {
        "quick": "sweep lattice as C02 quick (incl. the N=60000/100000 spot configurations); force_target_nf: targets 100..400 step 10 and 5..95 step 5, N in {2000, 20000}, 4 schedulers; targets 100..400 step 2, N=60000, ltf and lpsd",
        "thorough": "sweep lattice as C02 thorough; force_target_nf: targets 100..400 step 1, N in {2000, 20000, 60000}, 4 schedulers",
    },
    "assumptions": ["'no clamp active' is decided by a reference procedure written from the scheduler documentation's targets",
                    "ties of the nearest-integer rule are accepted either way"],
}


def shards(tier, seed):
    out = sched.shards_for(tier, seed, PROPERTY)
    step = 10 if tier == "quick" else 1
    targets = list(range(100, 401, step)) + list(range(5, 100, 5 if tier == "quick" else 1))
    Ns = [2000, 20000] if tier == "quick" else [2000, 20000]
    chunk = 4 if tier == "quick" else 16
    force = []
    for N in Ns:
        for name in sched.SCHEDS:
            tg = targets
            if tier == "quick" and N > 2000:   # long record in the quick tier: small targets (below the smallest reachable count) and a few large ones
                if name == "vectorized_ltf":
                    continue
                tg = list(range(5, 100, 10)) + [100, 200, 300, 400]
            for i in range(0, len(tg), chunk):
                force.append({"prop": "C04", "force": True, "N": N, "sched": name, "targets": tg[i:i + chunk]})
    # long records (the search takes ~1 s per target there): every second target for the iterative schedulers
    big_targets = list(range(100, 401, 2 if tier == "quick" else 1))
    for name in (("ltf", "lpsd") if tier == "quick" else sched.SCHEDS):
        for i in range(0, len(big_targets), 10):
            force.append({"prop": "C04", "force": True, "N": 60000, "sched": name, "targets": big_targets[i:i + 10]})
    return pairhist.shards_for(PROPERTY, force=True) + force + out


def run_shard(shard):
    if shard.get("part") == "pairs":
        return pairhist.run_pair_shard(shard, ("plan", "sched", "nf"))
    if shard.get("force"):
        return _force(shard)
    return sched.run_shard_for(shard)


def _force_one(name, N, target):
    from speckit.analysis import SpectrumAnalyzer

    case = {"force": True, "N": N, "sched": name, "targets": [target], "prop": "C04"}
    try:
        with fw.time_limit(600):
            an = SpectrumAnalyzer(np.zeros(N), 2.0, scheduler=name, Jdes=target, Kdes=10, olap=0.5,
                                  force_target_nf=True, win="hann")
            plan = an.plan()
    except fw.Timeout:
        return 0, [fw.fail(f"force/{name}/timeout", f"force_target_nf target={target} N={N} {name}: no result after 600 s", case)]
    except (RuntimeError, ValueError):
        return 0, []  # documented outcome: "exactly that count or an error"
    except BaseException as e:  # noqa: BLE001  (SystemExit, ZeroDivisionError, ... are crashes, not the documented error)
        return 0, [fw.fail(f"force/{name}/raises", f"force_target_nf target={target} N={N} {name}: {type(e).__name__}: {e}", case)]
    nf = len(plan["f"])
    if nf != target or int(plan["nf"]) != target:
        return 1, [fw.fail(f"force/{name}/count", f"force_target_nf target={target} N={N} {name}: plan has {nf} bins", case)]
    return 1, []


def _force(shard):
    logging.disable(logging.CRITICAL)
    evals = nontriv = 0
    fails = []
    for t in shard["targets"]:
        ok, fl = _force_one(shard["sched"], shard["N"], t)
        evals += 1
        nontriv += ok
        fails += fl
    return {"evals": evals, "nontrivial": nontriv, "failures": fails,
            "samples": [{"force_target_nf": shard["targets"][0], "sched": shard["sched"], "N": shard["N"]}],
            "extra": {"forced_searches": evals, "forced_exact": nontriv}}


def replay(case):
    if case.get("part") == "pairs":
        return run_shard(case)["failures"]
    if case.get("force"):
        return _force(case)["failures"]
    return sched.replay_for(case)
