"""
C14 - results do not depend on thread scheduling or on call history.

S  (engine E3) every interleaving of the iterations of the six prange kernels and of the
   threads of the six CUDA kernels, lifted from the working tree's own source, up to a
   preemption bound (and without bound where stated): one outcome only, bitwise equal to
   the in-order execution; every output slot written exactly once; racy locations listed.
   The explorer tests itself on every run (closed-form schedule counts; a hoisted scratch
   buffer must be found).
C  conformance: the compiled kernels for every thread count 1..16 x parallel chunk size,
   repeated, bitwise equal to the single-thread result and equal to the lifted in-order
   execution; whole analyses under different thread counts.
H  (engine E2) BFS over histories of plan / compute / compute_single_bin on one analyzer:
   every call returns what a fresh analyzer returns, the cached plan is the same object
   with the same content, the analyzer's data are unchanged.
A  (engine E2) every order of first access of the lazily computed attributes of a result
   (all histories of reads up to the stated depth).
"""
import itertools
import json
import os
import subprocess
import sys

import numpy as np

from mc import ana, framework as fw, histories, pairhist, records
from mc import resultmodel as rm

PROPERTY = "C14"
META = {
    "level": "model_checking",
    "rule": ("S: stateless DFS over all schedules of K iteration-threads with scheduling points at accesses to shared-mutable arrays, "
             "iterative preemption bound; C: full product thread count x chunk size x K x repetition on the compiled kernels; H/A: "
             "explicit-state BFS over operation histories with complete-state hashing; non-trivial: every schedule/transition (the "
             "outcome is compared bitwise with the in-order / fresh-object outcome)"),
    "exhaustive": True,
    "bounds": {"quick": "S: 12 kernels x {K=2 unbounded, K=3 unbounded (34650 schedules) for distinct and repeated starts, K=33 with at most one deviation from the default schedule}; C: threads 1..16 x chunk {0,1,2,3,5,8} x K in {1,2,3,16,17,100,1000} x 3 repetitions; H: depth 4 with state merging, depth 3 without; A: depth 2 over all attribute names",
               "thorough": "S: adds K=4 preemption bound 2 and K=33 with two deviations; C: 20 repetitions; H: depth 5; A: depth 3"},
    "assumptions": ["each prange iteration is its own thread: a superset of every assignment of iterations to 1..16 workers and of every chunk size",
                    "the lifted model is bound to the compiled code by the conformance sweep; native thread timing itself is not controlled",
                    "CUDA: kernel source lifted the same way (one generator per CUDA thread); device arithmetic and warp scheduling are not covered",
                    "accesses through views/aliases created inside the loop body are attributed to the view object"],
}
MAX_EXEC = 150_000   # cap per exploration; when hit, the evidence reports the bound that was completed
PRANGE = ("_stats_win_only_auto", "_stats_win_only_csd", "_stats_detrend0_auto", "_stats_detrend0_csd", "_stats_poly_auto", "_stats_poly_csd")


def shards(tier, seed):
    out = [{"part": "selftest"}]
    for kn in PRANGE:
        for target in ("prange", "cuda"):
            out.append({"part": "sched", "kernel": kn, "target": target, "K": 2, "bound": None, "starts": "distinct"})
            out.append({"part": "sched", "kernel": kn, "target": target, "K": 2, "bound": None, "starts": "repeated"})
            out.append({"part": "sched", "kernel": kn, "target": target, "K": 3, "bound": None, "starts": "distinct"})
            out.append({"part": "sched", "kernel": kn, "target": target, "K": 3, "bound": None, "starts": "repeated"})
            # many segments (more than any plausible block size of a block-parallel kernel): one preemption
            out.append({"part": "sched", "kernel": kn, "target": target, "K": 33, "bound": 1, "starts": "many"})
            if tier == "thorough":
                out.append({"part": "sched", "kernel": kn, "target": target, "K": 4, "bound": 2, "starts": "distinct"})
                out.append({"part": "sched", "kernel": kn, "target": target, "K": 33, "bound": 2, "starts": "many"})
    for kn in PRANGE:
        out.append({"part": "conf", "kernel": kn, "reps": 3 if tier == "quick" else 20})
    out.append({"part": "conf_analysis", "seed": seed})
    out.append({"part": "conf_procs", "threads": [1, 5] if tier == "quick" else [1, 2, 5, 16]})
    for mode, order, force, backend in itertools.product(("auto", "cross"), (0, 2), (False, True), ("numba", "numpy")):
        out.append({"part": "hist", "mode": mode, "order": order, "force": force, "backend": backend, "depth": 4 if tier == "quick" else 5, "seed": seed})
        if not force and order == 0 and backend == "numba":  # other record length / scheduler: more half-sample ties in the starts
            for N2, sch2 in ((97, "ltf"), (131, "lpsd"), (97, "vectorized_ltf")):
                out.append({"part": "hist", "mode": mode, "order": order, "force": force, "backend": backend, "depth": 3, "seed": seed, "N": N2, "sched": sch2})
        if not force:  # the same search without state merging (every history its own state), to a smaller depth
            out.append({"part": "hist", "mode": mode, "order": order, "force": force, "backend": backend, "depth": 3 if tier == "quick" else 4, "seed": seed, "nomerge": True})
    from checks.c20 import RESULTS
    for k in RESULTS[:6]:
        out.append({"part": "attr", "result": k, "depth": 2 if tier == "quick" else 3, "seed": seed})
    for backend in ("numba", "numpy", "cuda"):
        out.append({"part": "refill", "backend": backend, "seed": seed})
    out += pairhist.shards_for(PROPERTY, force=True)
    out.sort(key=lambda s: {"refill": 0.6, "pairs": 0.7, "sched": 0, "attr": 1, "conf": 2, "conf_procs": 0.1, "conf_analysis": 2, "hist": 3, "selftest": 4}[s["part"]] + (0 if s.get("bound", 1) is None and s.get("K") == 3 else 0.5))
    return out


IN_SIM = os.environ.get("NUMBA_ENABLE_CUDASIM") == "1"


def run_shard(shard):
    ana.quiet()
    if shard.get("part") == "refill":
        if shard["backend"] == "cuda" and not IN_SIM:
            env = dict(os.environ, NUMBA_ENABLE_CUDASIM="1", NUMBA_NUM_THREADS="1")
            p = subprocess.run([sys.executable, "-m", "mc.simworker", "checks.c14"], input=json.dumps(shard), capture_output=True, text=True,
                               env=env, cwd=fw.ROOT, timeout=3600)
            if p.returncode != 0:
                raise RuntimeError(f"cuda-sim worker failed rc={p.returncode}\n{p.stderr[-3000:]}")
            return json.loads(p.stdout.splitlines()[-1])
        return _refill(shard)
    if shard.get("part") == "pairs":
        return pairhist.run_pair_shard(shard, ("plan", "sched", "raw", "single", "derived", "nf"))
    return {"selftest": _selftest, "sched": _sched, "conf": _conf, "conf_procs": _conf_procs, "conf_analysis": _conf_analysis, "hist": _hist, "attr": _attr,
            "hist1": _hist1}[shard["part"]](shard)


def replay(case):
    if case.get("part") == "pairs":
        return run_shard(case)["failures"]
    if case.get("part") == "hist1" and "result" in case:
        from checks import c20
        return c20._hist1(case)["failures"]
    return run_shard(case)["failures"]


# ---------------------------------------------------------------------------
def kernel_inputs(kn, K, starts_kind):
    from speckit import core

    L = 5
    N = 16
    x, y = records.id1(N), records.id2(N)
    w = np.ascontiguousarray(np.hanning(L + 2)[1:-1] + 0.1 * np.arange(L))
    if starts_kind == "many":
        N = 48
        x, y = records.id1(N), records.id2(N)
        starts = (np.arange(K, dtype=np.int64) * 5) % (N - L + 1)
    elif starts_kind == "distinct":
        starts = np.array([0, 7, 3, 11][:K], dtype=np.int64)
    else:
        starts = np.array([4, 4, 9, 4][:K], dtype=np.int64)
    args = [x] + ([y] if kn.endswith("csd") else []) + [starts, L, w, 0.7]
    if "poly" in kn:
        args.append(core._build_Q(L, 2))
    return args


def _selftest(shard):
    from mc import schedules as S, toykernels as T

    out = {"evals": 0, "nontrivial": 0, "failures": [], "samples": [], "extra": {}}

    def bad(msg):
        out["failures"].append(fw.fail("selftest", f"schedule explorer self-test failed: {msg}", dict(shard)))

    lk = S.LiftedKernel(T.toy_steps)
    for K, m in ((2, 2), (2, 3), (3, 2), (3, 3), (4, 2)):
        r = S.explore(lk, [np.zeros(K * m), K, m], None)
        out["evals"] += r["executions"]
        if r["executions"] != S.multinomial(m, K) or r["outcomes"] != 1:
            bad(f"toy kernel K={K} m={m}: {r['executions']} schedules, expected {S.multinomial(m, K)}")
    lk = S.LiftedKernel(T.toy_hoisted)
    r0 = S.explore(lk, [np.array([1.0, 2.0, 3.0]), 2], 0)
    r1 = S.explore(lk, [np.array([1.0, 2.0, 3.0]), 2], 1)
    out["evals"] += r0["executions"] + r1["executions"]
    if r0["outcomes"] != 1 or r1["outcomes"] < 2 or "scratch" not in r1["hot"] or r1["n_racy"] < 1:
        bad(f"hoisted scratch buffer not detected: outcomes {r0['outcomes']}/{r1['outcomes']} hot {r1['hot']}")
    r = S.explore(S.LiftedKernel(T.toy_private), [np.array([1.0, 2.0, 3.0]), 2], None)
    out["evals"] += r["executions"]
    if r["outcomes"] != 1 or r["n_racy"] != 0:
        bad("private scratch buffer reported as racy")
    out["nontrivial"] = out["evals"]
    out["samples"].append({"selftest": "multinomial schedule counts; hoisted scratch found at 1 preemption", "hoisted_witness": r1["witness"]})
    return out


def _sched(shard):
    import importlib
    from mc import schedules as S
    from speckit import core

    kn, K, target = shard["kernel"], shard["K"], shard["target"]
    args = kernel_inputs(kn, K, shard["starts"])
    out = {"evals": 0, "nontrivial": 0, "failures": [], "samples": [], "extra": {}}

    def add(tag, msg):
        out["failures"].append(fw.fail(f"sched/{target}/{kn}/{tag}", f"{target} kernel {kn} (K={K}, starts {shard['starts']}, bound {shard['bound']}): {msg}", dict(shard)))

    try:
        entry_is_kernel = True
        if target == "prange":
            # the parallel loop may sit in the public kernel itself or in a helper it calls
            disp, args = S.capture_prange_call(getattr(core, kn), args)
            entry_is_kernel = disp is getattr(core, kn)
            lk = S.LiftedKernel(disp, "prange")
            nth = None
        else:
            # run the host wrapper with the device API replaced by NumPy stand-ins and record the kernel launch:
            # the explored threads get exactly the arguments and launch configuration the wrapper would use
            cc = importlib.import_module("speckit.core_cuda")
            disp, cfg, args, outs_idx = S.capture_cuda_launch(getattr(cc, kn + "_cuda"), args)
            lk = S.LiftedKernel(disp, "cuda")
            lk.launch, lk.outputs = cfg, outs_idx
            nth = cfg[0] * cfg[1]
        # iterative bounding: 0, 1, 2 preemptions completely, then the requested bound; stop at the first
        # schedule whose outcome differs (the counter-example with the fewest preemptions)
        r = None
        cnt = "deviations" if K > 8 else "preemptions"
        for b in (0, 1, 2):
            if shard["bound"] is not None and b > shard["bound"]:
                break
            r = S.explore(lk, args, b, nthreads=nth, max_exec=MAX_EXEC, stop_on_diff=True, count=cnt)
            r["bound_completed"] = b if not r["capped"] and r["outcomes"] == 1 else b - 1
            if r["outcomes"] != 1 or r["capped"]:
                break
        if r["outcomes"] == 1 and not r["capped"] and shard["bound"] is None:
            done = r["bound_completed"]
            r = S.explore(lk, args, None, nthreads=nth, max_exec=MAX_EXEC, stop_on_diff=True)
            r["bound_completed"] = -1 if (not r["capped"] and r["outcomes"] == 1) else done  # -1 = unbounded completed
    except (S.LiftError, SyntaxError, AttributeError, KeyError, TypeError, NameError, ValueError, IndexError, NotImplementedError, RuntimeError) as e:
        # an AST shape the lifter does not model: the schedule space of this kernel cannot be enumerated. That is a
        # limit of the harness, not a verdict on the code: nothing is reported for this kernel here (the native
        # conformance sweep over thread counts and chunk sizes still runs on it) and the evidence says so.
        out["evals"] = 1
        out["nontrivial"] = 0
        out["extra"] = {"kernels_not_liftable": 1, "not_liftable": [f"{target}:{kn}: {type(e).__name__}: {e}"[:200]]}
        out["samples"].append({"kernel": kn, "target": target, "not lifted": str(e)[:200]})
        return out
    out["evals"] = r["executions"]
    out["nontrivial"] = r["executions"]
    out["extra"] = {"states": r["executions"] * max(r["points"], 1), "transitions": r["executions"] * max(r["points"], 1),
                    "schedules": r["executions"], "max_scheduling_points": r["points"], "racy_locations": r["n_racy"],
                    "max_outcomes": r["outcomes"], "cap_hit": int(r["capped"]),
                    "min_bound_completed": 99 if r["bound_completed"] == -1 else r["bound_completed"]}
    if r["outcomes"] != 1:
        add("outcome", f"{r['outcomes']} distinct outcomes over {r['executions']} schedules; hot arrays {r['hot']}; racy locations {r['racy']}; schedule (choice list) giving a different result: {r['witness']}")
    outs = ("xx", "yy", "xyr", "xyi")
    for lab in outs:
        cnt = [c for (l_, i), c in r["write_counts"].items() if l_ == lab]
        if not cnt:
            continue  # the kernel does not use an output array of this name (layout is the implementation's business)
        if len(cnt) != K or any(c != 1 for c in cnt):
            add("slots", f"output array {lab}: slots written {sorted((i, c) for (l_, i), c in r['write_counts'].items() if l_ == lab)} (expected each of {K} slots exactly once)")
            break
    # conformance of the lifted in-order execution with the compiled kernel
    if target == "prange":
        def flat(v):
            if isinstance(v, (tuple, list)):
                return np.concatenate([flat(u) for u in v]) if len(v) else np.zeros(0)
            return np.atleast_1d(np.asarray(v, dtype=float)).ravel()
        cargs = [a.copy() if isinstance(a, np.ndarray) else a for a in args]
        cret = disp(*cargs)
        # what the kernel delivers: its return value (if any) and the final contents of its array arguments
        got = flat([cret if cret is not None else []] + [a for a in cargs if isinstance(a, np.ndarray)])
        ref = flat([r["reference"] if r["reference"] is not None else []] + list(r["reference_arrays"]))
        scale = max(float(np.max(np.abs(ref))) if ref.size else 0.0, 1e-300)
        if got.shape != ref.shape or not np.all(np.abs(got - ref) <= 1e-11 * max(scale, scale * scale)):
            add("model-vs-compiled", f"lifted in-order execution {ref.tolist()[:8]} differs from the compiled code {got.tolist()[:8]}")
        out["extra"]["traces_validated_against_impl"] = 1
    out["samples"].append({"kernel": kn, "target": target, "K": K, "bound": shard["bound"], "schedules": r["executions"], "hot": r["hot"],
                           "points": r["points"], "racy": r["n_racy"]})
    return out


# ---------------------------------------------------------------------------
CONF_SCRIPT = r"""
import json, sys, os
sys.path.insert(0, os.environ.get('VERIF_ROOT', '/verif'))
from mc import framework as _fw
_fw.pin_env("16")
import numpy as np, numba
from speckit import core
from mc import records
from checks.c14 import conf_inputs
kn, reps = sys.argv[1], int(sys.argv[2])
fn = getattr(core, kn)
res = {"evals": 0, "bad": [], "nthreads_max": numba.config.NUMBA_NUM_THREADS}
for K in (1, 2, 3, 16, 17, 100, 1000):
    args = conf_inputs(kn, K)
    numba.set_num_threads(1)
    numba.set_parallel_chunksize(0)
    base = tuple(float(v) for v in fn(*args))
    for nt in range(1, numba.config.NUMBA_NUM_THREADS + 1):
        for ch in (0, 1, 2, 3, 5, 8, K):
            numba.set_num_threads(nt)
            numba.set_parallel_chunksize(ch)
            for r in range(reps):
                got = tuple(float(v) for v in fn(*args))
                res["evals"] += 1
                if np.array(got).tobytes() != np.array(base).tobytes():
                    res["bad"].append({"K": K, "threads": nt, "chunk": ch, "got": got, "base": base})
                    break
    numba.set_parallel_chunksize(0)
print(json.dumps(res))
"""


def conf_inputs(kn, K):
    from speckit import core

    L = 24
    N = L + 3 * K + 5
    x, y = records.id1(N), records.id3(N)
    w = np.ascontiguousarray(np.hanning(L))
    starts = np.ascontiguousarray((np.arange(K) * 3) % (N - L + 1), dtype=np.int64)
    args = [x] + ([y] if kn.endswith("csd") else []) + [starts, L, w, 0.9]
    if "poly" in kn:
        args.append(core._build_Q(L, 2))
    return args


def _conf(shard):
    env = dict(os.environ, NUMBA_NUM_THREADS="16")
    p = subprocess.run([sys.executable, "-c", CONF_SCRIPT, shard["kernel"], str(shard["reps"])], capture_output=True, text=True,
                       env=env, cwd=fw.ROOT, timeout=3600)
    out = {"evals": 0, "nontrivial": 0, "failures": [], "samples": [], "extra": {}}
    if p.returncode != 0:
        raise RuntimeError(f"conformance worker failed: {p.stderr[-2000:]}")
    res = json.loads(p.stdout.splitlines()[-1])
    out["evals"] = out["nontrivial"] = res["evals"]
    out["extra"]["traces_validated_against_impl"] = res["evals"]
    out["extra"]["max_threads_used"] = res["nthreads_max"]
    if res["bad"]:
        b = res["bad"][0]
        out["failures"].append(fw.fail(f"conf/{shard['kernel']}", f"compiled kernel {shard['kernel']} with K={b['K']}, {b['threads']} threads, chunk size {b['chunk']} returned {b['got']} but {b['base']} with one thread", dict(shard)))
    out["samples"].append({"kernel": shard["kernel"], "threads": "1..16", "chunks": [0, 1, 2, 3, 5, 8, "K"], "K": [1, 2, 3, 16, 17, 100, 1000], "reps": shard["reps"]})
    return out


CONF_PROCS = r"""
import json, sys, os
sys.path.insert(0, os.environ.get('VERIF_ROOT', '/verif'))
from mc import framework as _fw
_fw.pin_env(sys.argv[1])
os.environ["NUMBA_CACHE_DIR"] = sys.argv[2]      # a cache of its own: everything is compiled in this process, for this thread count
import numpy as np, logging
logging.disable(logging.CRITICAL)
from mc import records, kern
res = {}
for cross in (False, True):
    for order in (-1, 0, 1, 2):
        k = kern.get_kernel("numba", cross, order)
        for K, L in ((2 ** 18 + 3, 3), (1000, 16), (70001, 2)):
            N = K + L - 1
            x, y = records.id1(N), records.id3(N)
            w = np.ascontiguousarray(np.hanning(L + 2)[1:-1])
            starts = np.arange(K, dtype=np.int64)
            got = k(x, y, starts, L, w, 0.9)
            res[f"{'csd' if cross else 'auto'}/order={order}/K={K}"] = [float(v).hex() for v in got]
print(json.dumps(res))
"""


def _conf_procs(shard):
    """The same kernels in separate processes configured with different thread counts, each compiling into its own empty cache
    (so nothing compiled for another thread count is reused): bins with up to 2^18+3 segments, results compared bit by bit."""
    import shutil
    import tempfile

    out = {"evals": 0, "nontrivial": 0, "failures": [], "samples": [], "extra": {}}
    runs = {}
    tmpd = tempfile.mkdtemp(prefix="verif_c14_")
    try:
        procs = {}
        for nt in shard["threads"]:
            cdir = os.path.join(tmpd, f"cache{nt}")
            os.makedirs(cdir)
            procs[nt] = subprocess.Popen([sys.executable, "-c", CONF_PROCS, str(nt), cdir], stdout=subprocess.PIPE, stderr=subprocess.PIPE, text=True,
                                         env=dict(os.environ, NUMBA_NUM_THREADS=str(nt)), cwd=fw.ROOT)
        for nt, p in procs.items():
            so, se = p.communicate(timeout=3000)
            if p.returncode != 0:
                raise RuntimeError(f"thread-count worker ({nt} threads) failed: {se[-2000:]}")
            runs[nt] = json.loads(so.splitlines()[-1])
    finally:
        shutil.rmtree(tmpd, ignore_errors=True)
    base_nt = shard["threads"][0]
    for key, base in runs[base_nt].items():
        for nt in shard["threads"][1:]:
            out["evals"] += 1
            out["nontrivial"] += 1
            if runs[nt].get(key) != base and not any(f_["key"] == f"conf-procs/{key.split('/K=')[0]}" for f_ in out["failures"]):
                out["failures"].append(fw.fail(f"conf-procs/{key.split('/K=')[0]}", f"kernel {key}: a process configured with {nt} threads gives {[float.fromhex(v) for v in runs[nt].get(key, [])]}, "
                                                                                  f"one configured with {base_nt} thread(s) gives {[float.fromhex(v) for v in base]}", dict(shard)))
    out["extra"]["traces_validated_against_impl"] = out["evals"]
    out["samples"].append({"processes with thread counts": shard["threads"], "K": [2 ** 18 + 3, 1000, 70001]})
    return out


CONF_ANA = r"""
import json, sys, os
sys.path.insert(0, os.environ.get('VERIF_ROOT', '/verif'))
from mc import framework as _fw
_fw.pin_env("16")
import numpy as np, numba, logging
logging.disable(logging.CRITICAL)
from mc import records
from speckit import compute_spectrum
seed = int(sys.argv[1])
res = {"evals": 0, "bad": []}
for mode, order, sch in [(m, o, s) for m in ("auto", "cross") for o in (-1, 0, 1, 2) for s in ("ltf", "vectorized_ltf")]:
    N = 400
    x = records.id1(N); y = records.get("seed0", N, seed)
    data = x if mode == "auto" else np.stack([x, y])
    base = None
    for nt in (1, 2, 3, 5, 8, 16):
        for ch in (0, 1, 4):
            numba.set_num_threads(nt); numba.set_parallel_chunksize(ch)
            r = compute_spectrum(data, 2.0, order=order, scheduler=sch, Jdes=30, Kdes=10, win="hann", backend="numba")
            key = b"".join(np.asarray(getattr(r, k)).tobytes() for k in ("XX", "YY", "XY", "M2", "f", "L"))
            res["evals"] += 1
            if base is None: base = key
            elif key != base: res["bad"].append({"mode": mode, "order": order, "sched": sch, "threads": nt, "chunk": ch})
    numba.set_parallel_chunksize(0)
print(json.dumps(res))
"""


def _conf_analysis(shard):
    env = dict(os.environ, NUMBA_NUM_THREADS="16")
    p = subprocess.run([sys.executable, "-c", CONF_ANA, str(shard["seed"])], capture_output=True, text=True, env=env, cwd=fw.ROOT, timeout=3600)
    if p.returncode != 0:
        raise RuntimeError(f"conformance worker failed: {p.stderr[-2000:]}")
    res = json.loads(p.stdout.splitlines()[-1])
    out = {"evals": res["evals"], "nontrivial": res["evals"], "failures": [], "samples": [{"analysis under threads": [1, 2, 3, 5, 8, 16], "chunks": [0, 1, 4]}],
           "extra": {"traces_validated_against_impl": res["evals"]}}
    if res["bad"]:
        out["failures"].append(fw.fail("conf/analysis", f"the same analysis gave different numbers with a different thread count / chunk size: {res['bad'][0]}", dict(shard)))
    return out


# ---------------------------------------------------------------------------
def _analyzer_factory(shard):
    N, fs = shard.get("N", 96), 3.0
    x, y = ana.data_for(shard["mode"], N, "id1", "id2", shard["seed"])
    kw = dict(olap=0.5, Kdes=4, order=shard["order"], scheduler=shard.get("sched", "ltf"), backend=shard["backend"], win="hann")
    if shard["force"]:
        kw.update(Jdes=100, force_target_nf=True, Lmin=1)
        N = 400
        x, y = ana.data_for(shard["mode"], N, "id1", "id2", shard["seed"])
    else:
        kw.update(Jdes=14)
    data = ana.as_input(x, y)

    def make():
        return ana.make_analyzer(data.copy(), fs, **kw)

    return make, data


def _raw_key(res):
    return b"".join(np.asarray(getattr(res, k)).tobytes() for k in ("f", "r", "b", "L", "K", "navg", "XX", "YY", "XY", "M2", "S12", "S2")) + \
        b"".join(np.asarray(d, dtype=np.int64).tobytes() for d in res.D)


def _plan_key(p):
    return b"".join(np.asarray(p[k]).tobytes() for k in ("f", "r", "b", "L", "K", "navg", "O")) + b"".join(np.asarray(d).tobytes() for d in p["D"]) + str(p["nf"]).encode()


def _hist_ops(make):
    an = make()
    p = an.plan()
    ja, jb = 1, len(p["f"]) - 2
    ops = [("plan",), ("compute",), ("single_L", float(p["f"][ja]), int(p["L"][ja])), ("single_fres", float(p["f"][jb]), float(p["r"][jb])),
           ("compute_touch",)]
    # a bin of the plan whose ideal start positions contain an exact half sample (odd number of segments, odd N-L): the full and
    # the single-bin path must still give the numbers a fresh analyzer gives, in any call order
    N = an.nx
    for j in range(len(p["f"])):
        K, L = int(p["K"][j]), int(p["L"][j])
        if K >= 3 and K % 2 == 1 and (N - L) % 2 == 1 and j not in (ja, jb):
            ops.append(("single_L", float(p["f"][j]), L))
            break
    return ops


def _apply_an(an, op):
    if op[0] == "plan":
        p = an.plan()
        return ("plan", _plan_key(p), id(p))
    if op[0] == "compute":
        return ("res", _raw_key(an.compute()))
    if op[0] == "compute_touch":
        r = an.compute()
        names = ("Gxx", "coh", "Hxy") if r.iscsd else ("asd", "ENBW", "Gxx_dev")
        vals = b"".join(np.asarray(getattr(r, a)).tobytes() for a in names)
        return ("res+", _raw_key(r) + vals)
    if op[0] == "single_L":
        return ("res", _raw_key(an.compute_single_bin(op[1], L=op[2])))
    return ("res", _raw_key(an.compute_single_bin(op[1], fres=op[2])))


def _hist(shard):
    make, data = _analyzer_factory(shard)
    ops = _hist_ops(make)
    base = {op: _apply_an(make(), op) for op in ops}
    data_key = np.ascontiguousarray(data, dtype=np.float64).tobytes()
    base_plan = _plan_key(make().plan())

    def apply(an, op):
        try:
            return ("ok", _apply_an(an, op))
        except Exception as e:  # noqa: BLE001
            return ("raised", f"{type(e).__name__}: {e}")

    def enabled(h):
        return ops if len(h) < shard["depth"] else []

    def canon(an, h):
        if shard.get("nomerge"):
            return tuple(h)
        # complete state of the analyzer object (whatever its private layout is)
        return histories.state_hash(an)

    tag = f"hist/{shard['mode']}/{shard['backend']}"

    def invariant(h, op, an, obs, allobs):
        res = []
        if obs[0] == "raised":
            return [(f"{tag}/raises/{op[0]}", f"after {list(h)} the call {op} raised {obs[1]}")]
        o = obs[1]
        if o[1] != base[op][1]:
            res.append((f"{tag}/value/{op[0]}", f"after {list(h)} the call {op} returned numbers different from the same call on a fresh analyzer"))
        # plans returned earlier in this history must be the object and the content returned now ("cached plans are returned unchanged")
        plans = [x[1] for x in allobs if x[0] == "ok" and x[1][0] == "plan"]
        if plans:
            try:
                pnow = an.plan()
            except Exception as e:  # noqa: BLE001
                return res + [(f"{tag}/plan-raises/{op[0]}", f"after {list(h)}+{op}: plan() raised {type(e).__name__}: {e} although it returned a plan earlier in this history")]
            if any(pk[1] != _plan_key(pnow) for pk in plans):
                res.append((f"{tag}/plan-mutated/{op[0]}", f"after {list(h)}+{op}: the plan returned earlier differs in content from the plan returned now"))
            if any(pk[2] != id(pnow) for pk in plans):
                res.append((f"{tag}/plan-replaced/{op[0]}", f"after {list(h)}+{op}: plan() no longer returns the cached plan object"))
            if _plan_key(pnow) != base_plan:
                res.append((f"{tag}/plan-content/{op[0]}", f"after {list(h)}+{op}: the cached plan differs from a fresh analyzer's plan"))
        if np.ascontiguousarray(an.data, dtype=np.float64).tobytes() != data_key:
            res.append((f"{tag}/data/{op[0]}", f"after {list(h)}+{op}: the analyzer's data changed"))
        return res

    ex = histories.Explorer(make, apply, enabled, canon, invariant).run()
    fails = [fw.fail(k, m, dict(shard, part="hist1", hist=[list(o) for o in hh])) for k, m, hh, *_ in ex.failures]
    return {"evals": ex.transitions, "nontrivial": ex.transitions, "failures": fails,
            "samples": [{"analyzer": {k: shard[k] for k in ("mode", "order", "force", "backend")}, "history": h} for h in ex.samples[:1]],
            "extra": {"states": ex.states, "transitions": ex.transitions, "traces_validated_against_impl": ex.replayed, "max_depth": ex.max_depth,
                      "max_analyzer_states": 0 if shard.get("nomerge") else ex.states}}


def _hist1(case):
    make, data = _analyzer_factory(case)
    an = make()
    fails = []
    for op in case["hist"]:
        op = tuple(op)
        got = _apply_an(an, op)
        want = _apply_an(make(), op)
        if got[1] != want[1]:
            fails.append(fw.fail(f"hist/{case['mode']}/{case['backend']}/value/{op[0]}", f"history {case['hist']}: {op} differs from a fresh analyzer", case))
            break
    return {"evals": 1, "nontrivial": 1, "failures": fails, "samples": []}


def _attr(shard):
    from checks import c20

    raw = c20.make_raw(shard["result"], shard["seed"])
    names = rm.dynamic_names(c20.fresh(raw))
    ops = c20.alphabet(names, "reads", raw[2])
    ex, fails, _ = c20.explore(raw, ops, shard["depth"], f"attr/{shard['result']}", dict(shard))
    for f_ in fails:
        f_["case"]["part"] = "hist1"
    return {"evals": ex.transitions, "nontrivial": ex.transitions, "failures": fails,
            "samples": [{"result": shard["result"], "access order": h} for h in ex.samples[:1]],
            "extra": {"states": ex.states, "transitions": ex.transitions, "traces_validated_against_impl": ex.replayed, "max_depth": ex.max_depth}}


def _refill(shard):
    """Call history through the caller's buffer: analyse a buffer, overwrite its contents in place, analyse it again (same
    analyzer class, new analyzer; and the kernels directly). The second result must be that of the new contents."""
    from mc import kern
    from speckit import compute_spectrum
    from speckit.analysis import SpectrumAnalyzer

    backend = shard["backend"]
    out = {"evals": 0, "nontrivial": 0, "failures": [], "samples": [], "extra": {}}
    N = 200
    kw = dict(olap=0.5, Jdes=8, Kdes=3, win="hann", scheduler="ltf", backend=backend)
    seen = set()

    def add(tag, msg):
        if tag not in seen:
            seen.add(tag)
            out["failures"].append(fw.fail(f"refill/{backend}/{tag}", f"refill/{backend}/{tag}: {msg}", dict(shard)))

    for mode, order in itertools.product(("auto", "cross"), (-1, 0, 2)):
        a = records.id1(N) if mode == "auto" else np.stack([records.id1(N), records.id2(N)])
        b = records.id3(N) * 2 + 1 if mode == "auto" else np.stack([records.id3(N) * 2 + 1, records.id4(N)])
        want = _raw_key(compute_spectrum(np.array(b, copy=True), 2.0, order=order, **kw))
        buf = np.ascontiguousarray(a, dtype=np.float64).copy()
        first = _raw_key(compute_spectrum(buf, 2.0, order=order, **kw))
        buf[...] = b                                   # same memory, new contents
        second = _raw_key(compute_spectrum(buf, 2.0, order=order, **kw))
        out["evals"] += 1
        out["nontrivial"] += 1
        if second != want:
            add(f"analysis/{mode}", f"order {order}: after overwriting the caller's buffer in place, the analysis of the new contents {'equals the analysis of the OLD contents' if second == first else 'differs from a fresh analysis of the same samples'}")
        # same analyzer object whose data alias the caller's buffer: single-bin after refill
        buf2 = np.ascontiguousarray(a, dtype=np.float64).copy()
        an = SpectrumAnalyzer(buf2, 2.0, order=order, **kw)
        an.compute_single_bin(0.3, L=32)
        ref_an = SpectrumAnalyzer(np.array(b, copy=True), 2.0, order=order, **kw)
        if np.shares_memory(an.data, buf2):            # only meaningful if the analyzer keeps a view of the caller's buffer
            buf2[...] = b
            got = _raw_key(an.compute_single_bin(0.3, L=32))
            out["evals"] += 1
            if got != _raw_key(ref_an.compute_single_bin(0.3, L=32)):
                add(f"single/{mode}", f"order {order}: analyzer whose data alias the caller's buffer returns stale numbers after the buffer was refilled")
    # kernel level
    x = np.ascontiguousarray(records.id1(64))
    y = np.ascontiguousarray(records.id2(64))
    starts = np.array([0, 10, 32], dtype=np.int64)
    win = np.ascontiguousarray(np.hanning(32))
    for cross, order in itertools.product((True, False), (-1, 0, 1)):
        k = kern.get_kernel(backend, cross, order)
        bx, by = x.copy(), y.copy()
        k(bx, by if cross else None, starts, 32, win, 0.7)
        bx[:] = records.id3(64)
        by[:] = records.id4(64)
        got = k(bx, by if cross else None, starts, 32, win, 0.7)
        want = k(records.id3(64).copy(), records.id4(64).copy() if cross else None, starts, 32, win, 0.7)
        out["evals"] += 1
        out["nontrivial"] += 1
        if np.array(got).tobytes() != np.array(want).tobytes():
            add(f"kernel/{'csd' if cross else 'auto'}", f"order {order}: kernel called again on the same (refilled) arrays returns {got}, fresh arrays with the same samples give {want}")
    out["samples"].append({"refill": backend, "N": N})
    return out
