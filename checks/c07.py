"""
C07 - transfer-function estimates recover gain and phase with the right sign,
identically on every backend.

(i)  y = g*x                      -> Hxy = g, coherence 1 at every bin
(ii) y[n] = x[n-d] (first d held) -> (a) Hxy equals the reference
     sum conj(X_k) Y_k / sum |X_k|^2 built from X_k = sum win (x-trend) e^{-iwn};
     (b) on bins where the edge effect computed for this record is small and
     0.3 < w d mod 2pi < pi-0.3: phase negative, magnitude ~ 1 (physical statement).
"""
import itertools
import json
import os
import subprocess
import sys

import numpy as np

from mc import ana, framework as fw

PROPERTY = "C07"
META = {
    "level": "model_checking",
    "rule": ("full product N x record x scheduler x Lmin x olap x window x order x backend x (gain g | delay d); oracle on every bin; "
             "non-trivial: bins whose |X|^2 exceeds 1e3x its rounding tolerance (the quotient is defined by the data, not by rounding)"),
    "exhaustive": True,
    "bounds": {"quick": "N in {256,512}; records id1,id3,seeded; schedulers lpsd,ltf,vectorized_ltf,new_ltf; Lmin {32,64}; olap {0,.5}; windows hann,kaiser200; orders -1..2; backends numba,numpy (+cuda-sim: N=256, ltf, hann); g in {-2,.5,3}; d in {1,2,3}",
               "thorough": "adds N=1024 and record chirp"},
    "assumptions": ["(b) is evaluated on the bins where the reference value is within 0.25 of e^{-iwd} (edge effect computed for the record, not assumed) and 0.3 < w*d mod 2pi < pi-0.3; the strict statement is (a)"],
}
IN_SIM = os.environ.get("NUMBA_ENABLE_CUDASIM") == "1"
SCHEDS = ("lpsd", "ltf", "vectorized_ltf", "new_ltf")


def shards(tier, seed):
    out = []
    Ns = [256, 512] + ([1024] if tier == "thorough" else [])
    recs = ["id1", "id3", "seed0"] + (["chirp"] if tier == "thorough" else [])
    for N, rx, sch, backend in itertools.product(Ns, recs, SCHEDS, ("numba", "numpy")):
        out.append({"N": N, "rx": rx, "sched": sch, "backend": backend, "seed": seed})
    for order in (-1, 0, 1, 2):
        out.append({"N": 256, "rx": "id1", "sched": "ltf", "backend": "cuda", "seed": seed, "orders": [order]})
    for backend in ("numba", "numpy", "cuda"):
        out.append({"views": True, "backend": backend, "N": 200, "seed": seed})
    out.sort(key=lambda s: -s["N"] * (20 if s["backend"] == "cuda" else 1))
    return out


def run_shard(shard):
    if shard["backend"] == "cuda" and not IN_SIM:
        env = dict(os.environ, NUMBA_ENABLE_CUDASIM="1", NUMBA_NUM_THREADS="1")
        p = subprocess.run([sys.executable, "-m", "mc.simworker", "checks.c07"], input=json.dumps(shard),
                           capture_output=True, text=True, env=env, cwd=fw.ROOT, timeout=3600)
        if p.returncode != 0:
            raise RuntimeError(f"cuda-sim worker failed rc={p.returncode}\n{p.stderr[-3000:]}")
        return json.loads(p.stdout.splitlines()[-1])
    ana.quiet()
    if shard.get("views"):
        return _views(shard)
    cuda = shard["backend"] == "cuda"
    out = {"evals": 0, "nontrivial": 0, "failures": [], "samples": [],
           "extra": {"bins_phase_checked": 0, "max_edge_dev": 0.0}}
    seen = set()
    if "case" in shard:
        combos = [shard["case"]]
    else:
        combos = []
        lm = (32, 64) if not cuda else (32,)
        ol = (0.0, 0.5) if not cuda else (0.5,)
        wn = ("hann", "kaiser200") if not cuda else ("hann",)
        sysl = [("g", -2.0), ("g", 0.5), ("g", 3.0), ("d", 1), ("d", 2), ("d", 3)] if not cuda else [("g", -2.0), ("d", 2)]
        for Lmin, olap, win, order, (kind, val) in itertools.product(lm, ol, wn, shard.get("orders", (-1, 0, 1, 2)), sysl):
            combos.append({"N": shard["N"], "rx": shard["rx"], "sched": shard["sched"], "backend": shard["backend"],
                           "seed": shard["seed"], "Lmin": Lmin, "olap": olap, "win": win, "order": order, "kind": kind, "val": val})
    for c in combos:
        r = _one(c)
        out["evals"] += r["evals"]
        out["nontrivial"] += r["nontrivial"]
        out["extra"]["bins_phase_checked"] += r["phase"]
        out["extra"]["max_edge_dev"] = max(out["extra"]["max_edge_dev"], r["edge"])
        for f_ in r["failures"]:
            if f_["key"] not in seen:
                seen.add(f_["key"])
                out["failures"].append(f_)
        if not out["samples"] and r["sample"]:
            out["samples"].append(r["sample"])
    return out


def replay(case):
    if case.get("views"):
        return run_shard(case)["failures"]
    return run_shard({"backend": case["backend"], "case": case})["failures"]


def _views(shard):
    """The delayed channel handed to the kernels as an overlapping view of the same buffer (x = buf[d:], y = buf[:-d]):
    the transfer function conj(X)Y/|X|^2 must still be that of a delay (negative phase), on every backend."""
    from mc import kern, records
    from mc.ref import estimator as est

    backend = shard["backend"]
    out = {"evals": 0, "nontrivial": 0, "failures": [], "samples": [], "extra": {"bins_phase_checked": 0, "max_edge_dev": 0.0}}
    buf = records.id1(shard["N"] + 8) + 0.3 * records.id3(shard["N"] + 8)
    for d, order, L in itertools.product((1, 2, 5), (-1, 0, 1, 2), (32, 64)):
        xv, yv = buf[d:d + shard["N"]], buf[0:shard["N"]]     # y[n] = x[n-d]
        starts = np.arange(0, shard["N"] - L + 1, L // 2, dtype=np.int64)
        win = np.ascontiguousarray(np.hanning(L))
        k = kern.get_kernel(backend, True, order)
        # three ordinary bins, plus a frequency far below the first bin and one just under Nyquist (|sin w| < 1e-4: what the lowest
        # bins of a very long record look like to the recurrence)
        for b in (3.0, 5.37, L / 4, 3e-5 * L / (2 * np.pi), (np.pi - 3e-5) * L / (2 * np.pi)):
            w = 2 * np.pi * b / L
            got = k(xv, yv, starts, L, win, w)
            ref = est.ref_stats(np.array(xv), np.array(yv), starts, L, win, w, order)
            tol = est.tolerances(np.array(xv), np.array(yv), starts, L, win)
            out["evals"] += 1
            if not ref[0] > 1e3 * tol[0]:
                continue
            out["nontrivial"] += 1
            H = complex(got[2], -got[3]) / got[0]
            Href = complex(ref[2], -ref[3]) / ref[0]
            tH = (np.hypot(tol[2], tol[3]) + abs(Href) * tol[0]) / ref[0] * 2 + 1e-15
            wd = (w * d) % (2 * np.pi)
            if not (abs(H - Href) <= tH):
                key = f"views/Href/{backend}/order={order}"
                if not any(f_["key"] == key for f_ in out["failures"]):
                    out["failures"].append(fw.fail(key, f"{key}: delayed copy given as an overlapping view (d={d}, L={L}, bin {b}): Hxy={H!r} but conj(X)Y/|X|^2 = {Href!r}", dict(shard)))
            elif 0.3 < wd < np.pi - 0.3 and abs(Href - np.exp(-1j * w * d)) <= 0.25:
                out["extra"]["bins_phase_checked"] += 1
                if not H.imag < 0:
                    out["failures"].append(fw.fail(f"views/sign/{backend}", f"delay d={d}: phase {np.angle(H)!r} is not negative", dict(shard)))
    out["samples"].append({"views": backend, "delays": [1, 2, 5]})
    return out


def _one(c):
    fs = 2.0
    N = c["N"]
    from mc import records
    x = records.get(c["rx"], N, c["seed"])
    if c["kind"] == "g":
        y = c["val"] * x
    else:
        d = int(c["val"])
        y = np.concatenate([np.full(d, x[0]), x[:-d]])
    wkw, wref = ana.win_spec(c["win"])
    res = {"evals": 0, "nontrivial": 0, "failures": [], "phase": 0, "edge": 0.0, "sample": None}

    def add(tag, msg):
        key = f"{tag}/{c['backend']}/order={c['order']}/{c['kind']}"
        res["failures"].append(fw.fail(key, f"{key}: {msg} :: {c}", c))

    try:
        r = ana.make_analyzer(np.stack([x, y]), fs, olap=c["olap"], Lmin=c["Lmin"], Jdes=40, Kdes=8, order=c["order"],
                              scheduler=c["sched"], backend=c["backend"], **wkw).compute()
    except Exception as e:  # noqa: BLE001
        res["evals"] = 1
        add("raises", f"{type(e).__name__}: {e}")
        return res
    pf = ana.plan_fields(r)
    H = np.asarray(r.Hxy)
    coh = np.asarray(r.coh)
    for j in range(len(pf["f"])):
        L = int(pf["L"][j])
        ref, tol = ana.ref_bin(x, y, fs, pf["f"][j], L, pf["D"][j], wref(L), c["order"])
        MXX, MYY, mur, mui, _ = ref
        res["evals"] += 1
        if not (MXX > 1e3 * tol[0]):
            continue
        res["nontrivial"] += 1
        Href = complex(mur, -mui) / MXX  # conj(X conj Y)/|X|^2 = conj(X) Y / |X|^2
        tH = (np.hypot(tol[2], tol[3]) + abs(Href) * tol[0]) / MXX * 2 + 1e-15
        if c["kind"] == "g":
            g = c["val"]
            if not (abs(H[j] - g) <= tH):
                add("gain/H", f"bin {j} f={pf['f'][j]!r} L={L}: Hxy={H[j]!r} expected {g} (tol {tH:.2e})")
                break
            tc = 2 * np.hypot(tol[2], tol[3]) / max(abs(complex(mur, mui)), 1e-300) + tol[0] / MXX + tol[1] / max(MYY, 1e-300) + 1e-12
            if MYY > 1e3 * tol[1] and not (abs(coh[j] - 1) <= 2 * tc):
                add("gain/coh", f"bin {j}: coh={coh[j]!r} expected 1 (tol {2 * tc:.2e})")
                break
        else:
            d = int(c["val"])
            if not (abs(H[j] - Href) <= tH):
                add("delay/Href", f"bin {j} f={pf['f'][j]!r} L={L}: Hxy={H[j]!r} reference conj(X)Y/|X|^2={Href!r} (tol {tH:.2e})")
                break
            w = 2 * np.pi * pf["f"][j] / fs
            wd = (w * d) % (2 * np.pi)
            ideal = np.exp(-1j * w * d)
            # physical statement, evaluated where the edge effect of *this* record is
            # small (computed from the reference, not assumed): lagging output has
            # negative phase -w*d and unit magnitude
            if 0.3 < wd < np.pi - 0.3 and abs(Href - ideal) <= 0.25:
                dev = abs(H[j] - ideal)
                res["phase"] += 1
                res["edge"] = max(res["edge"], dev)
                if not (H[j].imag < 0 and np.angle(H[j]) < 0):
                    add("delay/sign", f"bin {j} f={pf['f'][j]!r} L={L} d={d}: phase {np.angle(H[j])!r} is not negative (expected {-wd!r})")
                    break
                if not (abs(abs(H[j]) - 1) <= 0.26 and abs(np.angle(H[j] / ideal)) <= 0.27):
                    add("delay/edge", f"bin {j} f={pf['f'][j]!r} L={L} d={d}: Hxy={H[j]!r} vs e^(-iwd)={ideal!r}")
                    break
    if res["sample"] is None:
        res["sample"] = {"case": c, "nf": len(pf["f"]), "Hxy": [[z.real, z.imag] for z in H[:3]]}
    return res
