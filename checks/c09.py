"""
C09 - cross-spectral identities and bounds on every bin of every two-channel
analysis: 0<=coh<=1, |Gxy|^2<=Gxx*Gyy, coh=1 for K=1 / dependent channels, channel
swap symmetry, auto-density alone == as part of a pair, GyyCx+GyyRx=Gyy,
GyySx = Gyy*(1-coh).
"""
import itertools

import numpy as np

from mc import ana, framework as fw, records
from mc.ref import estimator as est

PROPERTY = "C09"
META = {
    "level": "model_checking",
    "rule": ("every x over the alphabet {-2,0,1}^n (n=6 quick with a fixed 2-sample suffix, n=8 thorough) paired with 8 partner "
             "constructions (zero, constant, identical, -2x, x+const, identifiable, rotated, reversed) x 3 plan configurations x "
             "4 orders x 2 windows x 2 backends; identities evaluated on every bin; non-trivial: bins with XX and YY above 1e6x "
             "their rounding tolerance"),
    "exhaustive": True,
    "bounds": {"quick": "N=8, x = s+[1,-2] for every s in {-2,0,1}^6 (every 27th also scaled by 1e-100, 1e-30, 1e30, 1e100); partners 8; plans (ltf,.5,J3,K2),(vectorized_ltf,0,J5,K1,Lmin2),(lpsd,.75,J4,K3); orders -1..2; windows hann,kaiser60 (numba) / hann (numpy); numba+numpy",
               "thorough": "x over all of {-2,0,1}^8"},
    "assumptions": ["bounds carry the derived rounding tolerance of the estimates (see C01); exact-arithmetic identities are demanded to 1e-9 relative"],
}
PLANS = (
    {"scheduler": "ltf", "olap": 0.5, "Jdes": 3, "Kdes": 2},
    {"scheduler": "vectorized_ltf", "olap": 0.0, "Jdes": 5, "Kdes": 1, "Lmin": 2},
    {"scheduler": "lpsd", "olap": 0.75, "Jdes": 4, "Kdes": 3},
)
PARTNERS = ("zero", "const", "same", "m2x", "xpc", "id1", "roll", "rev")


def partner(name, x):
    n = x.size
    return {"zero": np.zeros(n), "const": np.ones(n), "same": x.copy(), "m2x": -2.0 * x, "xpc": x + 3.0,
            "id1": records.id1(n), "roll": np.roll(x, 1), "rev": x[::-1].copy()}[name]


def shards(tier, seed):
    out = []
    n = 6 if tier == "quick" else 8
    M = 3 ** n
    nchunk = 16 if tier == "quick" else 162
    for ci in range(nchunk):
        for backend in ("numba", "numpy"):
            out.append({"n": n, "lo": ci * M // nchunk, "hi": (ci + 1) * M // nchunk, "backend": backend})
    for backend in ("numba", "numpy"):
        out.append({"big": True, "backend": backend})
    # the same identities for records in extreme units (every 27th record of the alphabet)
    for scale in (1e-100, 1e-30, 1e30, 1e100):
        for backend in ("numba", "numpy"):
            out.append({"n": 6, "lo": 0, "hi": 729, "backend": backend, "scale": scale, "stride": 27})
    return out


def run_shard(shard):
    import warnings
    warnings.simplefilter("ignore")
    ana.quiet()
    if "case" in shard:
        c = shard["case"]
        return _pair(np.asarray(c["x"], float), c["partner"], c["plan"], c["order"], c["win"], c["backend"], c.get("scale", 1.0))
    if shard.get("big"):
        return _big(shard)
    n, backend = shard["n"], shard["backend"]
    alln = records.sigma_all(n)[shard["lo"]:shard["hi"]]
    out = {"evals": 0, "nontrivial": 0, "failures": [], "samples": [], "extra": {"bins_coh1_checked": 0, "bins_complex_XY": 0}}
    seen = set()
    scale = shard.get("scale", 1.0)
    for s in alln[::shard.get("stride", 1)]:
        x = s if n == 8 else np.concatenate([s, [1.0, -2.0]])
        for pn, pi, order, win in itertools.product(PARTNERS, range(len(PLANS)), (-1, 0, 1, 2), ("hann", "kaiser60") if backend == "numba" else ("hann",)):
            r = _pair(x, pn, pi, order, win, backend, scale)
            out["evals"] += r["evals"]
            out["nontrivial"] += r["nontrivial"]
            for k in r["extra"]:
                out["extra"][k] = out["extra"].get(k, 0) + r["extra"][k]
            for f_ in r["failures"]:
                if f_["key"] not in seen:
                    seen.add(f_["key"])
                    out["failures"].append(f_)
        if not out["samples"]:
            out["samples"].append({"x": x.tolist(), "partners": list(PARTNERS), "plans": len(PLANS)})
    return out


def replay(case):
    if case.get("big"):
        return run_shard(case)["failures"]
    return run_shard({"case": case})["failures"]


def _big(shard):
    """The same identities on records of realistic length (N=6000, default scheduler, ~150 bins)."""
    global PLANS
    out = {"evals": 0, "nontrivial": 0, "failures": [], "samples": [], "extra": {"bins_coh1_checked": 0, "bins_complex_XY": 0}}
    saved = PLANS
    PLANS = ({"scheduler": "vectorized_ltf", "olap": 0.5, "Jdes": 150, "Kdes": 20},)
    try:
        x = records.id1(6000) + 0.5 * records.id3(6000)
        for pn, order, win in itertools.product(("id1", "m2x", "xpc", "roll", "const", "zero"), (-1, 0, 1, 2), ("hann", "kaiser60")):
            r = _pair(x, pn, 0, order, win, shard["backend"])
            out["evals"] += r["evals"]
            out["nontrivial"] += r["nontrivial"]
            for k in r["extra"]:
                out["extra"][k] = out["extra"].get(k, 0) + r["extra"][k]
            for f_ in r["failures"]:
                f_["case"] = dict(shard)
                f_["key"] = "big/" + f_["key"]
                if not any(g["key"] == f_["key"] for g in out["failures"]):
                    out["failures"].append(f_)
    finally:
        PLANS = saved
    out["samples"].append({"big": 6000, "partners": 6})
    return out


def _pair(x, pn, pi, order, win, backend, scale=1.0):
    fs = 1.0
    y = partner(pn, x) * scale
    x0 = x
    x = x * scale
    wkw, wref = ana.win_spec(win)
    kw = dict(order=order, backend=backend, **PLANS[pi], **wkw)
    case = {"x": x0.tolist(), "partner": pn, "plan": pi, "order": order, "win": win, "backend": backend, "scale": scale}
    out = {"evals": 0, "nontrivial": 0, "failures": [], "extra": {"bins_coh1_checked": 0, "bins_complex_XY": 0}}

    def add(tag, msg):
        key = f"{tag}/{backend}/order={order}"
        if not any(f_["key"] == key for f_ in out["failures"]):
            out["failures"].append(fw.fail(key, f"{key}: {msg} :: partner={pn} plan={PLANS[pi]} win={win} x={x.tolist()} y={y.tolist()}", case))

    try:
        r = ana.make_analyzer(np.stack([x, y]), fs, **kw).compute()
        rs = ana.make_analyzer(np.stack([y, x]), fs, **kw).compute()
        ra = ana.make_analyzer(x.copy(), fs, **kw).compute()
    except Exception as e:  # noqa: BLE001
        out["evals"] = 1
        add("raises", f"{type(e).__name__}: {e}")
        return out
    pf = ana.plan_fields(r)
    nf = len(pf["f"])
    Gxx, Gyy, Gxy, coh = r.Gxx, r.Gyy, r.Gxy, r.coh
    GyyCx, GyyRx, GyySx = r.GyyCx, r.GyyRx, r.GyySx
    raw = ana.raw_fields(r)
    dependent = pn in ("same", "m2x") or (pn == "xpc" and order >= 0)
    for j in range(nf):
        out["evals"] += 1
        L = int(pf["L"][j])
        wv = wref(L)
        tol = est.tolerances(x, y, pf["D"][j], L, wv)
        S2 = float(np.sum(wv * wv))
        kden = 2.0 / (fs * S2)
        XX, YY, XY = float(raw["XX"][j]), float(raw["YY"][j]), complex(raw["XY"][j])
        big = XX > 1e6 * tol[0] and YY > 1e6 * tol[1]
        out["nontrivial"] += int(big)
        if not (np.isfinite(coh[j]) and -1e-12 <= coh[j] <= 1 + 1e-12):
            add("coh-range", f"bin {j}: coh={coh[j]!r} outside [0,1]")
        with np.errstate(all="ignore"):
            schw = (abs(Gxy[j]) / np.sqrt(Gxx[j])) <= np.sqrt(Gyy[j]) * (1 + 1e-12) + 1e-300 if Gxx[j] > 0 else abs(Gxy[j]) == 0
        if not schw:
            add("schwarz", f"bin {j}: |Gxy|^2={abs(Gxy[j]) ** 2!r} > Gxx*Gyy={Gxx[j] * Gyy[j]!r}")
        if big:
            tcoh = (2 * (2 * tol[2]) / abs(XY) + tol[0] / XX + tol[1] / YY) if abs(XY) > 0 else 1.0
            if (int(pf["K"][j]) == 1 or dependent) and tcoh < 1e-3:
                out["extra"]["bins_coh1_checked"] += 1
                if not (abs(coh[j] - 1) <= 4 * tcoh + 1e-9):
                    add("coh-one", f"bin {j} (K={int(pf['K'][j])}, partner {pn}): coh={coh[j]!r} != 1 (tol {4 * tcoh + 1e-9:.2e})")
        # swap symmetry
        tden = [t * kden for t in tol]
        if not (abs(rs.Gxx[j] - Gyy[j]) <= 4 * tden[1] + 1e-13 * abs(Gyy[j]) and abs(rs.Gyy[j] - Gxx[j]) <= 4 * tden[0] + 1e-13 * abs(Gxx[j])):
            add("swap-auto", f"bin {j}: swapped Gxx/Gyy {rs.Gxx[j]!r}/{rs.Gyy[j]!r} vs Gyy/Gxx {Gyy[j]!r}/{Gxx[j]!r}")
        if not (abs(rs.Gxy[j] - np.conj(Gxy[j])) <= 8 * tden[2] + 1e-13 * abs(Gxy[j])):
            add("swap-cross", f"bin {j}: swapped Gxy={rs.Gxy[j]!r} vs conj(Gxy)={np.conj(Gxy[j])!r}")
        if big and rs.coh[j] != coh[j]:
            relc = 8 * (tol[0] / XX + tol[1] / YY + (2 * tol[2] / abs(XY) if abs(XY) > 0 else 0.0))
            if np.isfinite(relc) and not (abs(rs.coh[j] - coh[j]) <= 1e-9 + relc * coh[j]):
                add("swap-coh", f"bin {j}: swapped coh={rs.coh[j]!r} vs {coh[j]!r}")
        # auto alone vs as part of a pair
        if not (abs(ra.Gxx[j] - Gxx[j]) <= 4 * tden[0] + 1e-13 * abs(Gxx[j])) or ra.f[j] != r.f[j]:
            add("auto-vs-pair", f"bin {j}: Gxx alone={ra.Gxx[j]!r} vs in pair={Gxx[j]!r}")
        # conditional spectra
        if not (abs(GyyCx[j] + GyyRx[j] - Gyy[j]) <= 1e-12 * abs(Gyy[j]) + 1e-300):
            add("Cx+Rx", f"bin {j}: GyyCx+GyyRx={GyyCx[j] + GyyRx[j]!r} != Gyy={Gyy[j]!r}")
        if abs(XY.imag) > 1e3 * tol[3] and abs(XY.real) > 1e3 * tol[2]:
            out["extra"]["bins_complex_XY"] += 1
        if big:
            want = Gyy[j] * (1 - coh[j])
            # GyySx is a difference of O(Gyy) terms: tolerance relative to Gyy
            tS = (1e-9 + 8 * (tol[0] / XX + tol[1] / YY + (2 * tol[2] / abs(XY) if abs(XY) > 0 else 0.0))) * abs(Gyy[j])
            if np.isfinite(tS) and not (abs(GyySx[j] - want) <= tS):
                add("GyySx", f"bin {j}: GyySx={GyySx[j]!r} != Gyy*(1-coh)={want!r} (XY={XY!r}, tol {tS:.2e})")
        elif np.isfinite(coh[j]) and np.isfinite(Gyy[j]) and np.isfinite(GyySx[j]):
            # weak or vanishing channels (zero / constant-after-detrend): the identity is between the result's own attributes, so it
            # is demanded for whatever value the coherence takes there, to rounding of Gyy
            out["extra"]["bins_GyySx_degenerate"] = out["extra"].get("bins_GyySx_degenerate", 0) + 1
            want = Gyy[j] * (1 - coh[j])
            if not (abs(GyySx[j] - want) <= 1e-9 * abs(Gyy[j]) + 1e-300):
                add("GyySx-degenerate", f"bin {j}: GyySx={GyySx[j]!r} != Gyy*(1-coh)={want!r} with coh={coh[j]!r} (XX={XX!r}, YY={YY!r}, XY={XY!r})")
    # the conditioned spectra of the swapped analysis (there the *first* channel is the zero / constant / dependent one)
    sG, sC, sR, sS, sc = rs.Gyy, rs.GyyCx, rs.GyyRx, rs.GyySx, rs.coh
    for j in range(nf):
        if not (np.isfinite(sc[j]) and np.isfinite(sG[j]) and np.isfinite(sS[j]) and np.isfinite(sG[j] * sc[j])):
            continue
        out["extra"]["bins_swapped_conditioned"] = out["extra"].get("bins_swapped_conditioned", 0) + 1
        if not (abs(sC[j] + sR[j] - sG[j]) <= 1e-12 * abs(sG[j]) + 1e-300):
            add("swapped/Cx+Rx", f"bin {j} of the swapped pair: GyyCx+GyyRx={sC[j] + sR[j]!r} != Gyy={sG[j]!r}")
        want = sG[j] * (1 - sc[j])
        if not (abs(sS[j] - want) <= 1e-9 * abs(sG[j]) + 1e-300):
            add("swapped/GyySx", f"bin {j} of the swapped pair (channels y,x): GyySx={sS[j]!r} != Gyy*(1-coh)={want!r} with coh={sc[j]!r}, K={int(pf['K'][j])}")
    return out
