"""
C19 - time-domain detrending and RMS integration are exact and mutually consistent.

polynomial_detrend: every x in {-2,0,1}^n (n<=8) and identifiable records, orders 0..5:
residual orthogonal to every monomial of degree <= p, polynomials map to zero,
idempotent; df_detrend per selected numeric column.  integral_rms: every ASD over
{0,1,2.5}^n on uniform/log/irregular grids, every band over grid points, midpoints
and +-inf: equals sqrt(trapz(asd^2,f)) over the points inside the band, additive in
power at grid-point splits, monotone under nesting; SpectrumResult.get_rms equals it.
The 'reproduces the time-domain RMS of broadband data' clause is statistical and is
not claimed (DESIGN.md section 6).
"""
import itertools
import warnings

import numpy as np

from mc import ana, framework as fw, records

PROPERTY = "C19"
META = {
    "level": "model_checking",
    "rule": ("full products: (records over the alphabet, n<=8, plus identifiable records) x order 0..5; (grid kind x n x ASD over {0,1,2.5}^n x band "
             "pairs); df option product; all cases distinct; non-trivial: records/ASDs that are not identically zero"),
    "exhaustive": True,
    "bounds": {"quick": "detrend n=1..7 exhaustive + n in {30,200,7000,60000} identifiable; rms grids of 2..6 points", "thorough": "detrend n<=8, rms grids to 8 points"},
    "assumptions": ["orthogonality demanded to 1e-7*||x||*||t^k|| (least-squares fit of a degree<=5 monomial basis on up to 200 points)",
                    "statistical clause (time-domain RMS of broadband data within a few percent) not claimed"],
}


def shards(tier, seed):
    out = []
    nmax = 7 if tier == "quick" else 8
    for n in range(1, nmax + 1):
        out.append({"part": "detrend", "n": n, "seed": seed})
    out.append({"part": "detrend_long", "seed": seed})
    out.append({"part": "df", "seed": seed})
    gmax = 6 if tier == "quick" else 8
    for n in range(2, gmax + 1):
        for grid in ("uniform", "log", "irregular"):
            out.append({"part": "rms", "n": n, "grid": grid})
            if n <= 5:
                for fscale in (1e-9, 1e6):
                    out.append({"part": "rms", "n": n, "grid": grid, "fscale": fscale})
    out.append({"part": "get_rms", "seed": seed})
    out.append({"part": "rms_long", "seed": seed})
    out.sort(key=lambda s: -s.get("n", 0))
    return out


def run_shard(shard):
    import logging
    logging.disable(logging.CRITICAL)
    warnings.simplefilter("ignore")
    return {"detrend": _detrend, "detrend_long": _detrend_long, "df": _df, "rms": _rms, "get_rms": _get_rms, "rms_long": _rms_long}[shard["part"]](shard)


def replay(case):
    return run_shard(case)["failures"]


def _check_detrend(x, order, out, seen, case, tag):
    from speckit.dsp import polynomial_detrend

    n = len(x)
    t = np.arange(n, dtype=float)
    try:
        r = np.asarray(polynomial_detrend(x.copy(), order=order), dtype=float)
    except Exception as e:  # noqa: BLE001
        if f"{tag}/raises" not in seen:
            seen.add(f"{tag}/raises")
            out["failures"].append(fw.fail(f"{tag}/raises", f"polynomial_detrend(n={n}, order={order}) raised {type(e).__name__}: {e}; x={x.tolist()[:12]}", case))
        return
    nx = float(np.linalg.norm(x)) + 1e-300
    for k in range(order + 1):
        m = t ** k
        ip = abs(float(np.dot(r, m)))
        if not (ip <= 1e-7 * nx * float(np.linalg.norm(m))):
            key = f"{tag}/orthogonal/order={order}"
            if key not in seen:
                seen.add(key)
                out["failures"].append(fw.fail(key, f"{key}: residual not orthogonal to t^{k}: <r,t^k>={ip!r} (||x||={nx!r}); x={x.tolist()[:12]}", case))
            return
    r2 = np.asarray(polynomial_detrend(r.copy(), order=order), dtype=float)
    if not np.all(np.abs(r2 - r) <= 1e-7 * nx):
        key = f"{tag}/idempotent/order={order}"
        if key not in seen:
            seen.add(key)
            out["failures"].append(fw.fail(key, f"{key}: detrending twice changes the result by {float(np.max(np.abs(r2 - r)))!r}; x={x.tolist()[:12]}", case))
    if np.shape(r) != np.shape(x):
        key = f"{tag}/shape"
        if key not in seen:
            seen.add(key)
            out["failures"].append(fw.fail(key, f"output shape {np.shape(r)}", case))


def _detrend(shard):
    from speckit.dsp import polynomial_detrend

    n = shard["n"]
    out = {"evals": 0, "nontrivial": 0, "failures": [], "samples": [], "extra": {}}
    seen = set()
    X = records.sigma_all(n)
    for x in X:
        for order in range(0, 6):
            out["evals"] += 1
            out["nontrivial"] += int(np.any(x != 0))
            _check_detrend(x, order, out, seen, dict(shard), "detrend")
    # exact polynomials map to zero
    t = np.arange(n, dtype=float)
    for order in range(0, 6):
        for dg in range(0, order + 1):
            p = 0.5 * (t - 1.3) ** dg - 2.0
            r = np.asarray(polynomial_detrend(p.copy(), order=order), dtype=float)
            out["evals"] += 1
            out["nontrivial"] += 1
            if not np.all(np.abs(r) <= 1e-7 * (np.linalg.norm(p) + 1)):
                key = f"detrend/polynomial/order={order}"
                if key not in seen:
                    seen.add(key)
                    out["failures"].append(fw.fail(key, f"{key}: polynomial of degree {dg} on {n} points left residual {r.tolist()}", dict(shard)))
    out["samples"].append({"n": n, "records": len(X), "orders": "0..5"})
    return out


def _detrend_long(shard):
    from speckit.dsp import polynomial_detrend

    out = {"evals": 0, "nontrivial": 0, "failures": [], "samples": [], "extra": {}}
    seen = set()
    for n in (30, 200, 7000, 60000):
        t = np.arange(n, dtype=float)
        for nm in (("id1", "id2", "id3", "pow", "seed0") if n <= 200 else ("id1", "id3")):
            x = records.get(nm, n, shard["seed"])
            for order in range(0, 6):
                for trend in ((None, 3.0 + 0.2 * t, 1e3 - 5 * t + 0.01 * t * t) if n <= 200 else (None, 3.0 + 1e-3 * t)):
                    xx = x if trend is None else x + trend
                    out["evals"] += 1
                    out["nontrivial"] += 1
                    _check_detrend(xx, order, out, seen, dict(shard), "detrend_long")
        for order in range(0, 6):
            for dg in range(0, order + 1):
                p = 2.0 * ((t - n / 3) / n) ** dg + 1.0
                r = np.asarray(polynomial_detrend(p.copy(), order=order), dtype=float)
                out["evals"] += 1
                out["nontrivial"] += 1
                if not np.all(np.abs(r) <= 1e-7 * np.linalg.norm(p)) and f"poly{order}" not in seen:
                    seen.add(f"poly{order}")
                    out["failures"].append(fw.fail(f"detrend_long/polynomial/order={order}", f"degree-{dg} polynomial on {n} points not removed by order {order}: max residual {float(np.max(np.abs(r)))!r}", dict(shard)))
    out["samples"].append({"n": [30, 200], "records": 5})
    return out


def _df(shard):
    import pandas as pd
    from speckit.dsp import df_detrend, polynomial_detrend

    out = {"evals": 0, "nontrivial": 0, "failures": [], "samples": [], "extra": {}}
    seen = set()
    N = 40
    df0 = pd.DataFrame({"a": records.id1(N) + 0.1 * np.arange(N), "b": records.id2(N) - 3, "k": np.arange(N, dtype=np.int64) ** 2,
                        "label": [f"r{i}" for i in range(N)]})
    frames = {"range": df0, "floatindex": df0.set_axis(np.arange(N) * 0.5 + 3.0), "shuffled-labels": df0.set_axis((np.arange(N) * 7) % N),
              "datetime": df0.set_axis(pd.date_range("2024-01-01", periods=N, freq="s")), "slice": pd.concat([df0, df0]).iloc[10:10 + N]}
    for (fname, dfx), cols, order, inplace, suffix in itertools.product(frames.items(), (None, ["a"], ["a", "k"], ["b", "label"]), (0, 1, 2, 3), (False, True), ("_detrended", "_d")):
        df0 = dfx
        before = df0.copy(deep=True)
        out["evals"] += 1
        out["nontrivial"] += 1
        try:
            r = df_detrend(df0, columns=cols, order=order, inplace=inplace, suffix=suffix)
        except Exception as e:  # noqa: BLE001
            if "df/raises" not in seen:
                seen.add("df/raises")
                out["failures"].append(fw.fail("df/raises", f"df_detrend(columns={cols}, order={order}, inplace={inplace}) raised {type(e).__name__}: {e}", dict(shard)))
            continue
        prob = []
        if not df0.equals(before):
            prob.append("input frame modified")
        if len(r) != len(df0) or not r.index.equals(df0.index):
            prob.append(f"index/row count changed ({fname} index): {len(r)} rows for {len(df0)}")
            r = r.iloc[:0].reindex(df0.index) if len(r) != len(df0) else r
        sel = [c for c in (cols if cols is not None else list(df0.columns)) if c != "label"]
        for c in ("a", "b", "k"):
            want = np.asarray(polynomial_detrend(df0[c].values.copy(), order=order), dtype=float)
            if c in sel:
                tgt = c if inplace else f"{c}{suffix}"
                if tgt not in r.columns:
                    prob.append(f"missing column {tgt}")
                elif np.asarray(r[tgt]).shape != want.shape or not np.allclose(np.asarray(r[tgt], dtype=float), want, rtol=0, atol=1e-9 * (np.abs(want).max() + 1)):
                    prob.append(f"{tgt} is not polynomial_detrend(column)")
                if not inplace and not np.array_equal(r[c].to_numpy(), df0[c].to_numpy()):
                    prob.append(f"original {c} altered although inplace=False")
            else:
                if not np.array_equal(r[c].to_numpy(), df0[c].to_numpy()):
                    prob.append(f"unselected column {c} altered")
                if f"{c}{suffix}" in r.columns:
                    prob.append(f"unselected column {c} got a detrended copy")
        if list(r["label"]) != list(df0["label"]) or f"label{suffix}" in r.columns:
            prob.append("non-numeric column altered")
        if prob:
            key = "df/" + prob[0].split(" ")[0]
            if key not in seen:
                seen.add(key)
                out["failures"].append(fw.fail(key, f"df_detrend(columns={cols}, order={order}, inplace={inplace}, suffix={suffix!r}): {prob}", dict(shard)))
    # a frame that already carries a detrended copy and is detrended again: the output name of one selected column is the name
    # of another selected column; every output is still the detrended version of its own *input* column
    X, Z = records.id1(N) + 0.1 * np.arange(N), records.id3(N) * 2.0 + 0.01 * np.arange(N) ** 2
    for order, first in itertools.product((0, 1, 2, 3, 4, 5), ("x", "x_detrended")):
        cols = ["x", "x_detrended"] if first == "x" else ["x_detrended", "x"]
        dfc = pd.DataFrame({c: (X if c == "x" else Z) for c in cols})
        out["evals"] += 1
        out["nontrivial"] += 1
        try:
            r = df_detrend(dfc, columns=cols, order=order, inplace=False, suffix="_detrended")
        except Exception as e:  # noqa: BLE001
            if "df/chained-raises" not in seen:
                seen.add("df/chained-raises")
                out["failures"].append(fw.fail("df/chained-raises", f"df_detrend on a frame with columns {cols} raised {type(e).__name__}: {e}", dict(shard)))
            continue
        want = np.asarray(polynomial_detrend(Z.copy(), order=order), dtype=float)
        got = np.asarray(r["x_detrended_detrended"], dtype=float) if "x_detrended_detrended" in r.columns else None
        if got is None or got.shape != want.shape or not np.allclose(got, want, rtol=0, atol=1e-9 * (np.abs(want).max() + 1)):
            if "df/chained" not in seen:
                seen.add("df/chained")
                out["failures"].append(fw.fail("df/chained", f"df_detrend(columns={cols}, order={order}): 'x_detrended_detrended' is not the detrended input column 'x_detrended'"
                                                             f" (max diff {None if got is None else float(np.max(np.abs(got - want)))!r})", dict(shard)))
    out["samples"].append({"df_detrend options": "columns x order x inplace x suffix; chained frame (x, x_detrended)"})
    return out


def grid(kind, n):
    if kind == "uniform":
        return 0.5 + 0.25 * np.arange(n)
    if kind == "log":
        return 0.01 * 3.0 ** np.arange(n)
    return np.cumsum(np.array([0.3, 0.05, 1.7, 0.4, 0.01, 2.2, 0.6, 0.09, 1.1][:n]))


def ref_rms(f, asd, lo, hi):
    pts = [i for i in range(len(f)) if lo <= f[i] <= hi]
    s = 0.0
    for a, b in zip(pts[:-1], pts[1:]):
        s += 0.5 * (asd[a] ** 2 + asd[b] ** 2) * (f[b] - f[a])
    return np.sqrt(s)


def _rms(shard):
    from speckit.dsp import integral_rms

    n, kind = shard["n"], shard["grid"]
    fscale = float(shard.get("fscale", 1.0))   # the same grids in other frequency units (nano-hertz ... mega-hertz)
    f = grid(kind, n) * fscale
    unit = np.sqrt(fscale)                      # size of an RMS for an ASD of order one on this grid
    out = {"evals": 0, "nontrivial": 0, "failures": [], "samples": [], "extra": {}}
    seen = set()
    mids = [0.5 * (a + b) for a, b in zip(f[:-1], f[1:])]
    edges = sorted(set(f.tolist() + mids + [-np.inf, np.inf, f[0] - 0.1 * fscale, f[-1] + 0.1 * fscale]))
    bands = [(lo, hi) for lo in edges for hi in edges if lo <= hi]

    def add(tag, msg, asd):
        key = f"rms/{tag}/{kind}" + ("" if fscale == 1.0 else f"/fscale={fscale:g}")
        if key not in seen:
            seen.add(key)
            out["failures"].append(fw.fail(key, f"{key}: f={f.tolist()} asd={asd.tolist()}: {msg}", dict(shard)))

    for asd in records.sigma_all(n, (0.0, 1.0, 2.5)):
        vals = {}
        for lo, hi in bands:
            out["evals"] += 1
            out["nontrivial"] += int(np.any(asd != 0))
            try:
                v = float(integral_rms(f, asd, (lo, hi)))
            except Exception as e:  # noqa: BLE001
                add("raises", f"band ({lo},{hi}) raised {type(e).__name__}: {e}", asd)
                continue
            vals[(lo, hi)] = v
            want = ref_rms(f, asd, lo, hi)
            if not (abs(v - want) <= 1e-12 * (want + unit)):
                add("value", f"band ({lo},{hi}): {v!r} != sqrt(trapz(asd^2)) over in-band points = {want!r}", asd)
        full = float(integral_rms(f, asd, None))
        if not (abs(full - ref_rms(f, asd, -np.inf, np.inf)) <= 1e-12 * (full + unit)):
            add("none-band", f"pass_band=None gives {full!r}", asd)
        # additivity in power at grid-point splits, monotone under nesting
        for lo, hi in bands:
            if (lo, hi) not in vals:
                continue
            for g in f:
                if lo <= g <= hi and (lo, g) in vals and (g, hi) in vals:
                    if not (abs(vals[(lo, g)] ** 2 + vals[(g, hi)] ** 2 - vals[(lo, hi)] ** 2) <= 1e-12 * (vals[(lo, hi)] ** 2 + fscale)):
                        add("additive", f"rms^2({lo},{g}) + rms^2({g},{hi}) != rms^2({lo},{hi})", asd)
        for (lo, hi), v in vals.items():
            for (lo2, hi2), v2 in vals.items():
                if lo2 <= lo and hi <= hi2 and v > v2 + 1e-12 * (v2 + unit):
                    add("monotone", f"band ({lo},{hi}) inside ({lo2},{hi2}) but rms {v!r} > {v2!r}", asd)
                    break
    out["samples"].append({"grid": kind, "f": f.tolist(), "bands": len(bands), "asd vectors": 3 ** n})
    return out


def _rms_long(shard):
    """Grids of realistic length (500 and 5000 points): bands over selected grid points / midpoints / infinities."""
    from speckit.dsp import integral_rms

    out = {"evals": 0, "nontrivial": 0, "failures": [], "samples": [], "extra": {}}
    seen = set()
    for n in (500, 5000):
        f = np.cumsum(0.001 + 0.01 * np.abs(records.id1(n)))
        asd = 1.0 + np.abs(records.id3(n)) * (1 + 100.0 / (1 + np.arange(n)))
        sel = [0, 1, 2, n // 3, n // 2, n - 3, n - 2, n - 1]
        edges = sorted({float(f[i]) for i in sel} | {float(0.5 * (f[i] + f[i + 1])) for i in sel if i + 1 < n} | {-np.inf, np.inf})
        vals = {}
        for lo, hi in itertools.product(edges, edges):
            if lo > hi:
                continue
            out["evals"] += 1
            out["nontrivial"] += 1
            v = float(integral_rms(f, asd, (lo, hi)))
            vals[(lo, hi)] = v
            m = (f >= lo) & (f <= hi)
            want = float(np.sqrt(np.sum(0.5 * (asd[m][1:] ** 2 + asd[m][:-1] ** 2) * np.diff(f[m])))) if m.sum() > 1 else 0.0
            if not (abs(v - want) <= 1e-11 * (want + 1)) and "rms_long/value" not in seen:
                seen.add("rms_long/value")
                out["failures"].append(fw.fail("rms_long/value", f"n={n}: band ({lo},{hi}): {v!r} != trapezoid over in-band points {want!r}", dict(shard)))
        for (lo, hi), v in vals.items():
            for g in (float(f[i]) for i in sel):
                if lo <= g <= hi and (lo, g) in vals and (g, hi) in vals:
                    if not (abs(vals[(lo, g)] ** 2 + vals[(g, hi)] ** 2 - v ** 2) <= 1e-10 * (v ** 2 + 1)) and "rms_long/additive" not in seen:
                        seen.add("rms_long/additive")
                        out["failures"].append(fw.fail("rms_long/additive", f"n={n}: rms^2 not additive at grid point {g} in band ({lo},{hi})", dict(shard)))
    out["samples"].append({"rms_long": [500, 5000]})
    return out


def _get_rms(shard):
    from speckit.dsp import integral_rms

    out = {"evals": 0, "nontrivial": 0, "failures": [], "samples": [], "extra": {}}
    seen = set()
    for N, sch, order, colour, fs in itertools.product((64, 200, 3000), ("ltf", "vectorized_ltf", "lpsd"), (0, 1), ("flat", "red2", "red3"), (4.0, 4e-7)):
        if N < 3000 and colour != "flat":
            continue
        if fs != 4.0 and (colour != "flat" or order != 0):
            continue   # records sampled once a month: frequencies of 1e-9..1e-7 Hz
        x = records.get("id3", N, shard["seed"]) + 0.2
        if colour == "red2":    # doubly / triply integrated record: power spectrum falling by many decades
            x = np.cumsum(np.cumsum(x - x.mean()))
        elif colour == "red3":
            x = np.cumsum(np.cumsum(np.cumsum(x - x.mean())))
        r = ana.make_analyzer(x, fs, olap=0.5, Jdes=12, Kdes=4, order=order, scheduler=sch, win="hann").compute()
        f, asd = np.asarray(r.f), np.asarray(r.asd)
        mids = [0.5 * (a + b) for a, b in zip(f[:-1], f[1:])]
        edges = sorted(set(f.tolist()[:4] + f.tolist()[-3:] + mids[:3] + [0.0, 2.5 * fs] + f.tolist()[len(f) // 2: len(f) // 2 + 2] + [float(f[-1]) * 0.7]))
        for lo, hi in itertools.product(edges, edges):
            out["evals"] += 1
            out["nontrivial"] += 1
            got = r.get_rms((lo, hi))
            a, b = min(lo, hi), max(lo, hi)
            want = ref_rms(f, asd, a, b)
            want2 = float(integral_rms(f, asd, (a, b)))
            if not (abs(got - want) <= 1e-10 * want + 1e-300 and abs(got - want2) <= 1e-10 * want + 1e-300):
                if "get_rms/value" not in seen:
                    seen.add("get_rms/value")
                    out["failures"].append(fw.fail("get_rms/value", f"get_rms(({lo},{hi}))={got!r} but integral over the band = {want!r} (integral_rms {want2!r}); N={N} {sch} fs={fs}", dict(shard)))
        got = r.get_rms()
        if not (abs(got - ref_rms(f, asd, -np.inf, np.inf)) <= 1e-11 * got + 1e-300) and "get_rms/full" not in seen:
            seen.add("get_rms/full")
            out["failures"].append(fw.fail("get_rms/full", f"get_rms() = {got!r} != full-band integral", dict(shard)))
    out["samples"].append({"get_rms": "N x scheduler x order x band pairs incl. reversed"})
    return out
