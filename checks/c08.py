"""
C08 - segment detrending removes polynomial trends (degree <= p) and nothing
else (degree p+1 does change the estimate); order -1 = raw windowed segments.

Kernel level: N=L+2, every start set over {0,1,2}, every x in SIGMA^N (N<=6) or
identifiable records, full trend-coefficient grid, trend on x / y / both.
Analyzer level: analysis lattice x trend grid, per-bin raw fields.
"""
import itertools
import json
import os
import subprocess
import sys

import numpy as np

from mc import ana, framework as fw, kern, records
from mc.ref import estimator as est
from mc.ref import windows as refwin

PROPERTY = "C08"
META = {
    "level": "model_checking",
    "rule": ("kernel level: full product L x start set x record x trend coefficients (c0,c1,c2) x channel(s) x order x window x "
             "frequency x backend x auto|cross; analyzer level: full product of analysis configurations x trend grid; "
             "non-trivial: the added trend itself (analysed without detrending) exceeds 1e3x the comparison tolerance, i.e. an "
             "implementation that failed to remove it would have been caught"),
    "exhaustive": True,
    "bounds": {"quick": "kernel: L=1..12, N=L+2, start sets [0],[1],[2],[0,1,2],[2,0]; records SIGMA^N for N<=4 (one channel, partner fixed), id1/id2, seeded and zero records otherwise; c0 in {0,5,-1e3}, c1 in {0,.7,-20}, c2 in {0,.01,3}; analyzer: N in {16,40,128}, ltf+vectorized_ltf, hann+kaiser200, auto+cross, numba+numpy; cuda-sim: L in {3,8}",
               "thorough": "kernel: L=1..40"},
    "assumptions": ["'unchanged up to rounding relative to the size of the added trend' = derived rounding bound evaluated for the trended record (est.tolerances)"],
}
IN_SIM = os.environ.get("NUMBA_ENABLE_CUDASIM") == "1"
C0 = (0.0, 5.0, -1e3)
C1 = (0.0, 0.7, -20.0)
C2 = (0.0, 0.01, 3.0)
STARTSETS = ([0], [1], [2], [0, 1, 2], [2, 0])


def shards(tier, seed):
    out = []
    Ls = range(1, 13) if tier == "quick" else range(1, 41)
    for L in Ls:
        for backend in ("numba", "numpy"):
            if L <= 2:  # exhaustive SIGMA^N records: split along order and mode
                for order in (0, 1, 2):
                    for cross in (True, False):
                        out.append({"part": "K", "L": L, "backend": backend, "seed": seed, "orders": [order], "modes": [cross]})
            else:
                out.append({"part": "K", "L": L, "backend": backend, "seed": seed})
    for L in (3, 8):
        for order in (0, 1, 2):
            out.append({"part": "K", "L": L, "backend": "cuda", "seed": seed, "orders": [order]})
    for N, sch, win, backend in itertools.product((16, 40, 128), ("ltf", "vectorized_ltf"), ("hann", "kaiser200"), ("numba", "numpy")):
        out.append({"part": "A", "N": N, "sched": sch, "win": win, "backend": backend, "seed": seed})
    out.sort(key=lambda s: -((1000 if s["backend"] == "cuda" else (500 if s.get("L", 9) <= 2 and s.get("modes") == [True] else s.get("L", 0))) + s.get("N", 0)))
    return out


def run_shard(shard):
    if shard["backend"] == "cuda" and not IN_SIM:
        env = dict(os.environ, NUMBA_ENABLE_CUDASIM="1", NUMBA_NUM_THREADS="1")
        p = subprocess.run([sys.executable, "-m", "mc.simworker", "checks.c08"], input=json.dumps(shard),
                           capture_output=True, text=True, env=env, cwd=fw.ROOT, timeout=3600)
        if p.returncode != 0:
            raise RuntimeError(f"cuda-sim worker failed rc={p.returncode}\n{p.stderr[-3000:]}")
        return json.loads(p.stdout.splitlines()[-1])
    ana.quiet()
    return {"K": _kernel, "K1": _kernel_case, "A": _analyzer, "A1": _analyzer_case}[shard["part"]](shard)


def replay(case):
    return run_shard(case)["failures"]


def trend(n, c0, c1, c2):
    t = np.arange(n, dtype=np.float64)
    return c0 + c1 * t + c2 * t * t


def degree(c0, c1, c2):
    return 2 if c2 != 0 else (1 if c1 != 0 else (0 if c0 != 0 else -1))


# ---------------------------------------------------------------------------
def _kernel(shard):
    L, backend, seed = shard["L"], shard["backend"], shard["seed"]
    N = L + 2
    cuda = backend == "cuda"
    if N <= 4 and not cuda:
        recs = [(r, records.id2(N)) for r in records.sigma_all(N)] + [(records.id1(N), r) for r in records.sigma_all(N)[::7]]
    else:
        recs = [(records.id1(N), records.id2(N)), (records.seeded(N, seed, 0), records.seeded(N, seed, 1)),
                (np.zeros(N), np.zeros(N))]
    wins = ("ramp", "hann", "gapneg") if not cuda else ("gapneg",)
    ws = (0.0, 0.7, np.pi) if not cuda else (0.7,)
    out = {"evals": 0, "nontrivial": 0, "failures": [], "samples": [], "extra": {"degree_p_plus_1_changes": 0}}
    seen = set()
    for order in shard.get("orders", (0, 1, 2)):
        for cross in shard.get("modes", (True, False)):
            k = kern.get_kernel(backend, cross, order)
            kraw = kern.get_kernel(backend, cross, -1)
            for wn, w, st in itertools.product(wins, ws, STARTSETS if not cuda else ([0, 1, 2],)):
                win = np.ascontiguousarray(refwin.build(wn, L))
                starts = np.asarray(st, dtype=np.int64)
                for (x, y) in recs:
                    x = np.ascontiguousarray(x, dtype=np.float64)
                    y = np.ascontiguousarray(y, dtype=np.float64)
                    base = k(x, y if cross else None, starts, L, win, w)
                    tol0 = est.tolerances(x, y if cross else None, starts, L, win)
                    for c0, c1, c2, who in itertools.product(C0, C1, C2, ("x", "y", "both") if cross else ("x",)):
                        dg = degree(c0, c1, c2)
                        if dg < 0 or dg > order + 1:
                            continue
                        t = trend(N, c0, c1, c2)
                        xt = x + t if who in ("x", "both") else x
                        yt = y + t if who in ("y", "both") else y
                        got = k(xt, yt if cross else None, starts, L, win, w)
                        tol1 = est.tolerances(xt, yt if cross else None, starts, L, win)
                        tol = tuple(a + b for a, b in zip(tol0, tol1))
                        out["evals"] += 1
                        case = {"part": "K1", "L": L, "backend": backend, "order": order, "cross": cross, "win": wn, "w": float(w),
                                "starts": list(st), "x": x.tolist(), "y": y.tolist(), "c": [c0, c1, c2], "who": who}
                        if dg <= order:
                            # what an implementation that did not remove the trend would see
                            raw = kraw(np.where(who in ("x", "both"), t, 0.0) * np.ones(N), (np.where(who in ("y", "both"), t, 0.0) * np.ones(N)) if cross else None, starts, L, win, w)
                            if max(abs(raw[0]), abs(raw[1])) > 1e3 * max(tol[0], tol[1]):
                                out["nontrivial"] += 1
                            bad = [kern.STAT[i] for i in range(5) if not (abs(got[i] - base[i]) <= tol[i])]
                            if bad:
                                key = f"K/removed/{backend}/{'csd' if cross else 'auto'}/order={order}/deg={dg}/{who}/{'+'.join(bad)}"
                                if key not in seen:
                                    seen.add(key)
                                    out["failures"].append(fw.fail(key, f"{key}: trend c={[c0, c1, c2]} of degree {dg} <= order changed the statistics: {got} vs {base} (tol {tol}) L={L} starts={st} win={wn} w={w:.4g}", case))
                        elif L >= order + 3 and w == 0.7:
                            # degree p+1 must change the estimate: compare with what the reference says it does
                            ref1 = est.ref_stats(xt, yt if cross else None, starts, L, win, w, order)
                            ref0 = est.ref_stats(x, y if cross else None, starts, L, win, w, order)
                            i = 0 if who in ("x", "both") else 1
                            dref = abs(ref1[i] - ref0[i])
                            if dref > 1e3 * tol[i]:
                                out["nontrivial"] += 1
                                out["extra"]["degree_p_plus_1_changes"] += 1
                                if not (abs(got[i] - base[i]) >= 0.5 * dref):
                                    key = f"K/kept/{backend}/{'csd' if cross else 'auto'}/order={order}/{who}"
                                    if key not in seen:
                                        seen.add(key)
                                        out["failures"].append(fw.fail(key, f"{key}: trend c={[c0, c1, c2]} of degree {dg} = order+1 did not change {kern.STAT[i]}: {got[i]!r} vs {base[i]!r}, reference change {dref!r}", case))
                    if not out["samples"]:
                        out["samples"].append({"L": L, "backend": backend, "order": order, "starts": list(st), "x": x.tolist()[:6], "base": list(base)})
    return out


def _kernel_case(c):
    L, order, cross = c["L"], c["order"], c["cross"]
    N = L + 2
    k = kern.get_kernel(c["backend"], cross, order)
    win = np.ascontiguousarray(refwin.build(c["win"], L))
    starts = np.asarray(c["starts"], dtype=np.int64)
    x = np.ascontiguousarray(c["x"], dtype=np.float64)
    y = np.ascontiguousarray(c["y"], dtype=np.float64)
    t = trend(N, *c["c"])
    xt = x + t if c["who"] in ("x", "both") else x
    yt = y + t if c["who"] in ("y", "both") else y
    base = k(x, y if cross else None, starts, L, win, c["w"])
    got = k(xt, yt if cross else None, starts, L, win, c["w"])
    tol = tuple(a + b for a, b in zip(est.tolerances(x, y if cross else None, starts, L, win),
                                      est.tolerances(xt, yt if cross else None, starts, L, win)))
    dg = degree(*c["c"])
    fails = []
    if dg <= order:
        bad = [kern.STAT[i] for i in range(5) if not (abs(got[i] - base[i]) <= tol[i])]
        if bad:
            fails.append(fw.fail(f"K/removed/{c['backend']}/{'csd' if cross else 'auto'}/order={order}/deg={dg}/{c['who']}/{'+'.join(bad)}",
                                 f"trend changed statistics: {got} vs {base} tol {tol}", c))
    else:
        ref1 = est.ref_stats(xt, yt if cross else None, starts, L, win, c["w"], order)
        ref0 = est.ref_stats(x, y if cross else None, starts, L, win, c["w"], order)
        i = 0 if c["who"] in ("x", "both") else 1
        if abs(ref1[i] - ref0[i]) > 1e3 * tol[i] and not (abs(got[i] - base[i]) >= 0.5 * abs(ref1[i] - ref0[i])):
            fails.append(fw.fail(f"K/kept/{c['backend']}/{'csd' if cross else 'auto'}/order={order}/{c['who']}", "degree p+1 trend did not change the estimate", c))
    return {"evals": 1, "nontrivial": 1, "failures": fails, "samples": []}


# ---------------------------------------------------------------------------
def _analyzer(shard):
    out = {"evals": 0, "nontrivial": 0, "failures": [], "samples": [], "extra": {"analyses": 0}}
    seen = set()
    for order, mode, (rx, ry) in itertools.product((-1, 0, 1, 2), ("auto", "cross"), (("id1", "id2"), ("seed0", "seed1"))):
        c = dict(shard, part="A1", order=order, mode=mode, rx=rx, ry=ry)
        r = _analyzer_case(c)
        out["evals"] += r["evals"]
        out["nontrivial"] += r["nontrivial"]
        out["extra"]["analyses"] += r["extra"]["analyses"]
        for f_ in r["failures"]:
            if f_["key"] not in seen:
                seen.add(f_["key"])
                out["failures"].append(f_)
        if not out["samples"]:
            out["samples"] = r["samples"]
    return out


def _analyzer_case(c):
    ana.quiet()
    N, order, mode = c["N"], c["order"], c["mode"]
    fs = 2.0
    x, y = ana.data_for(mode, N, c["rx"], c["ry"], c["seed"])
    wkw, wref = ana.win_spec(c["win"])
    kw = dict(olap=0.5, Jdes=12, Kdes=4, Lmin=1, order=order, scheduler=c["sched"], backend=c["backend"], **wkw)
    out = {"evals": 0, "nontrivial": 0, "failures": [], "samples": [], "extra": {"analyses": 0}}
    base = ana.make_analyzer(ana.as_input(x, y), fs, **kw).compute()
    pf = ana.plan_fields(base)
    rb = ana.raw_fields(base)
    nf = len(pf["f"])
    out["extra"]["analyses"] += 1
    # order -1: no detrending at all - the estimate is that of the raw windowed segments (reference with no trend removal),
    # on the full path and on the single-bin path; an added offset must show up at the lowest bin
    if order == -1:
        for j in range(nf):
            L = int(pf["L"][j])
            ref, tl = ana.ref_bin(x, y, fs, pf["f"][j], L, pf["D"][j], wref(L), -1)
            bad, got = ana.bin_mismatch(rb, j, ref, tl, y is None)
            out["evals"] += 1
            out["nontrivial"] += 1
            if bad:
                out["failures"].append(fw.fail(f"A/raw/{c['backend']}/{mode}/full/{'+'.join(bad)}", f"order -1, bin {j} (L={L}): {got} differs from the raw windowed-segment reference {ref} :: {c}", c))
                break
        an_ = ana.make_analyzer(ana.as_input(x, y), fs, **kw)
        for j in sorted({0, nf // 2, nf - 1}):
            sb = an_.compute_single_bin(float(pf["f"][j]), L=int(pf["L"][j]))
            Ls, Ds = int(sb.L[0]), np.asarray(sb.D[0], dtype=np.int64)
            ref, tl = ana.ref_bin(x, y, fs, float(pf["f"][j]), Ls, Ds, wref(Ls), -1)
            bad, got = ana.bin_mismatch(ana.raw_fields(sb), 0, ref, tl, y is None)
            out["evals"] += 1
            out["nontrivial"] += 1
            if bad:
                out["failures"].append(fw.fail(f"A/raw/{c['backend']}/{mode}/single/{'+'.join(bad)}", f"order -1, single bin at f={pf['f'][j]!r} L={Ls}: {got} differs from the raw windowed-segment reference {ref} :: {c}", c))
                break
    whos = ("x", "y", "both") if mode == "cross" else ("x",)
    for c0, c1, c2, who in itertools.product(C0, C1, C2, whos):
        dg = degree(c0, c1, c2)
        if dg < 0 or dg > order + 1 or (order == -1):
            continue
        t = trend(N, c0, c1, c2)
        xt = x + t if who in ("x", "both") else x
        yt = (y + t if who in ("y", "both") else y) if y is not None else None
        r = ana.make_analyzer(ana.as_input(xt, yt), fs, **kw).compute()
        out["extra"]["analyses"] += 1
        rf = ana.raw_fields(r)
        changed = False
        for j in range(nf):
            L = int(pf["L"][j])
            wv = wref(L)
            t0 = est.tolerances(x, y, pf["D"][j], L, wv)
            t1 = est.tolerances(xt, yt, pf["D"][j], L, wv)
            tol = {"XX": t0[0] + t1[0], "YY": t0[1] + t1[1], "XY": t0[2] + t1[2] + t0[3] + t1[3], "M2": t0[4] + t1[4]}
            out["evals"] += 1
            if dg <= order:
                out["nontrivial"] += 1
                bad = [k for k in ("XX", "YY", "XY", "M2") if not (abs(rf[k][j] - rb[k][j]) <= tol[k])]
                if bad:
                    key = f"A/removed/{c['backend']}/{mode}/order={order}/deg={dg}/{who}/{'+'.join(bad)}"
                    out["failures"].append(fw.fail(key, f"{key}: trend c={[c0, c1, c2]} changed bin {j} (L={L}): " + ", ".join(f"{k}: {rf[k][j]!r} vs {rb[k][j]!r} tol {tol[k]:.3e}" for k in bad) + f" :: {c}", c))
                    break
            else:
                k = "XX" if who in ("x", "both") else "YY"
                if L >= order + 3 and abs(rf[k][j] - rb[k][j]) > 1e3 * tol[k]:
                    changed = True
        if dg == order + 1 and not changed and any(int(L) >= order + 3 for L in pf["L"]):
            # the reference must agree that something should have changed
            exp = False
            for j in range(nf):
                L = int(pf["L"][j])
                if L < order + 3:
                    continue
                ref1, tl = ana.ref_bin(xt, yt, fs, pf["f"][j], L, pf["D"][j], wref(L), order)
                ref0, _ = ana.ref_bin(x, y, fs, pf["f"][j], L, pf["D"][j], wref(L), order)
                i = 0 if who in ("x", "both") else 1
                if abs(ref1[i] - ref0[i]) > 1e4 * tl[i]:
                    exp = True
                    break
            if exp:
                key = f"A/kept/{c['backend']}/{mode}/order={order}/{who}"
                out["failures"].append(fw.fail(key, f"{key}: trend c={[c0, c1, c2]} of degree order+1 left every bin unchanged :: {c}", c))
    out["samples"].append({"case": {k: c[k] for k in ("N", "sched", "win", "backend", "order", "mode")}, "nf": nf})
    return out
