"""
C05 - a computed spectrum is the reference estimator applied to its own plan.

E1: full product of (N, scheduler, window spec, order, backend, olap, (Jdes,Kdes),
bmin, Lmin, auto|cross, record); for every bin of every plan the raw fields are
compared with the longdouble reference estimator evaluated at f[j], L[j], D[j]
with an independently built window; single-bin requests (L= and fres=) for every
bin; band restriction for every pair of band edges from a stated set.
"""
import itertools

import numpy as np

from mc import ana, api, framework as fw, pairhist, records

PROPERTY = "C05"
META = {
    "level": "model_checking",
    "rule": ("full product of the analysis-configuration lattice (see bounds); oracle evaluated for every bin of every plan; "
             "evaluations = (analysis, bin) pairs + single-bin requests + band pairs; a bin is non-trivial when a reference "
             "statistic exceeds 1e3x its tolerance; lattice points are distinct by construction"),
    "exhaustive": True,
    "bounds": {
        "quick": "N in {16,24,33,64}; 4 schedulers; windows kaiser60/kaiser200/hann/np.kaiser/scipy kaiser/custom callable/custom callable with interior zeros and negative taps; orders -1..2; backends numba,numpy (+cuda-sim on a reduced lattice); olap default/0/0.5; (Jdes,Kdes) in {(5,2),(20,10)}; bmin {1,2}; Lmin {1,4}; auto+cross; records id1/id2 + seeded",
        "thorough": "adds N in {100,257}, records id3/id4",
        "large": "one N=4096 plan with > 1600 bins and one N=20000 analysis with the library's default parameters per backend and mode (every bin checked)",
    },
    "assumptions": ["reference window for Kaiser: DFT-even I0 definition with beta = alpha(psll)*pi, alpha from the published polynomial",
                    "tolerances: derived rounding bound of the recurrence (see C01)"],
}
WINS = ("kaiser60", "kaiser200", "hann", "npkaiser", "spkaiser", "custom", "customgap")
SCHEDS = ("lpsd", "ltf", "vectorized_ltf", "new_ltf")
IN_SIM = __import__("os").environ.get("NUMBA_ENABLE_CUDASIM") == "1"


def shards(tier, seed):
    Ns = [16, 24, 33, 64] + ([100, 257] if tier == "thorough" else [])
    out = []
    for N in Ns:
        for sch in SCHEDS:
            for win in WINS:
                for backend in ("numba", "numpy"):
                    out.append({"N": N, "sched": sch, "win": win, "backend": backend, "seed": seed, "tier": tier})
    # reduced lattice under the CUDA simulator
    for N in (16, 33):
        for sch in ("ltf", "vectorized_ltf"):
            for order in (-1, 0, 1, 2):
                out.append({"N": N, "sched": sch, "win": "kaiser200", "backend": "cuda", "seed": seed, "tier": tier,
                            "orders": [order]})
    for sch in SCHEDS:
        out.append({"N": 2000, "sched": sch, "win": "hann", "backend": "numba", "seed": seed, "tier": tier, "forceband": True})
    # backend="auto" in a process where CUDA is available (simulator): bins with more than 1000 segments go to the CUDA
    # kernels, the others to Numba, within one analysis
    for mode in ("auto", "cross"):
        out.append({"N": 1500, "sched": "ltf", "win": "hann", "backend": "cuda", "seed": seed, "tier": tier,
                    "case": {"N": 1500, "sched": "ltf", "win": "hann", "backend": "auto", "order": 1, "olap": 0.75, "Jdes": 12,
                             "Kdes": 1, "bmin": 1.0, "Lmin": 1, "mode": mode, "rx": "id1", "ry": "id3", "seed": seed, "light": True}})
    # one plan with more than 2000 bins (linear regime: Jdes far above N/2) per backend and mode
    for backend in ("numba", "numpy"):
        for mode in ("auto", "cross"):
            out.append({"N": 4096, "sched": "ltf", "win": "hann", "backend": backend, "seed": seed, "tier": tier,
                        "case": {"N": 4096, "sched": "ltf", "win": "hann", "backend": backend, "order": 0, "olap": 0.0, "Jdes": 6000,
                                 "Kdes": 1, "bmin": 1.0, "Lmin": 1, "mode": mode, "rx": "id1", "ry": "id3", "seed": seed, "light": True}})
    for backend in ("numba", "numpy"):
        for mode in ("auto", "cross"):
            out.append({"N": 20000, "sched": "vectorized_ltf", "win": "kaiser200", "backend": backend, "seed": seed, "tier": tier,
                        "case": {"N": 20000, "sched": "vectorized_ltf", "win": "kaiser200", "backend": backend, "order": 0, "olap": "default",
                                 "Jdes": 500, "Kdes": 100, "bmin": 1.0, "Lmin": 1, "mode": mode, "rx": "id1", "ry": "id3", "seed": seed, "light": True}})
    # the same lattice with the sampling rate in other units (records sampled once a year / at tens of MHz)
    for fs in (3e-8, 4e7):
        for sch in SCHEDS:
            for win in ("kaiser200", "hann"):
                for backend in ("numba", "numpy"):
                    out.append({"N": 24, "sched": sch, "win": win, "backend": backend, "seed": seed, "tier": tier, "fs": fs})
    # records long enough for segment lengths beyond 2^16 and frequencies below 1e-5 fs (few bins: the reference is O(K L) per bin)
    for sch, backend, mode, win in (("ltf", "numba", "cross", "kaiser200"), ("vectorized_ltf", "numba", "auto", "hann"),
                                    ("lpsd", "numpy", "cross", "hann"), ("new_ltf", "numba", "cross", "hann")):
        out.append({"N": 140000, "sched": sch, "win": win, "backend": backend, "seed": seed, "tier": tier,
                    "case": {"N": 140000, "sched": sch, "win": win, "backend": backend, "order": 0, "olap": 0.5, "Jdes": 8,
                             "Kdes": 2, "bmin": 1.0, "Lmin": 1, "mode": mode, "rx": "low1", "ry": "low2", "seed": seed, "light": True}})
    # a user-supplied scheduler whose grid is not sorted (a log grid with a linear zoom region appended) analysed with bands
    for backend in ("numba", "numpy"):
        out.append({"N": 600, "sched": "custom-zoom", "win": "hann", "backend": backend, "seed": seed, "tier": tier, "customband": True})
    out.sort(key=lambda s: -s["N"] * (30 if s["backend"] == "cuda" else 1))
    return pairhist.shards_for(PROPERTY) + out


def run_shard(shard):
    if shard.get("part") == "pairs":
        return pairhist.run_pair_shard(shard, ("plan", "raw", "single", "derived", "nf"))
    if shard["backend"] == "cuda" and not IN_SIM:
        from checks.c01 import _via_sim  # same simulator launcher
        import json, os, subprocess, sys
        env = dict(os.environ, NUMBA_ENABLE_CUDASIM="1", NUMBA_NUM_THREADS="1")
        p = subprocess.run([sys.executable, "-m", "mc.simworker", "checks.c05"], input=json.dumps(shard),
                           capture_output=True, text=True, env=env, cwd=fw.ROOT, timeout=3600)
        if p.returncode != 0:
            raise RuntimeError(f"cuda-sim worker failed rc={p.returncode}\n{p.stderr[-3000:]}")
        return json.loads(p.stdout.splitlines()[-1])
    if shard.get("forceband"):
        return _forceband(shard)
    if shard.get("customband"):
        return _customband(shard)
    if "case" in shard:
        return _one(shard["case"], full=not shard["case"].get("light"))
    ana.quiet()
    N, sch, win, backend, seed = shard["N"], shard["sched"], shard["win"], shard["backend"], shard["seed"]
    cuda = backend == "cuda"
    orders = shard.get("orders", [-1, 0, 1, 2])
    olaps = ["default", 0.0, 0.5] if not cuda else [0.5]
    jk = [(5, 2), (20, 10)] if not cuda else [(5, 2)]
    bmins = [1.0, 2.0] if not cuda else [1.0]
    lmins = [1, 4] if not cuda else [1]
    recs = [("id1", "id2"), ("seed0", "seed1")] if not cuda else [("id1", "id2")]
    if shard["tier"] == "thorough" and not cuda:
        recs.append(("id3", "id4"))
    tot = {"evals": 0, "nontrivial": 0, "failures": [], "samples": [], "extra": {"analyses": 0, "bins": 0, "single_bin": 0, "bands": 0}}
    seen = set()
    idx = 0
    for order, olap, (J, K), bmin, Lmin, mode, (rx, ry) in itertools.product(
            orders, olaps, jk, bmins, lmins, ("auto", "cross"), recs):
        case = {"N": N, "sched": sch, "win": win, "backend": backend, "order": order, "olap": olap, "Jdes": J,
                "Kdes": K, "bmin": bmin, "Lmin": Lmin, "mode": mode, "rx": rx, "ry": ry, "seed": seed}
        if "fs" in shard:
            case["fs"] = shard["fs"]
        # single-bin requests for every bin and all band pairs on every 8th lattice point; single-bin requests for the first and last bin on every other 8th
        slot = (idx + idx // 8 + idx // 64) % 8   # diagonal through the lattice: every mode/record/Lmin/bmin combination gets its turn
        r = _one(case, full=(slot == 0) and not cuda, light_single=cuda or (slot == 4))
        idx += 1
        tot["evals"] += r["evals"]
        tot["nontrivial"] += r["nontrivial"]
        for k, v in r["extra"].items():
            tot["extra"][k] += v
        for f_ in r["failures"]:
            if f_["key"] not in seen:
                seen.add(f_["key"])
                tot["failures"].append(f_)
        if not tot["samples"] and r["samples"]:
            tot["samples"] = r["samples"][:1]
    return tot


def _forceband(shard):
    """force_target_nf together with a band: the banded analysis is the in-band part of the same forced analysis."""
    ana.quiet()
    N, fs = shard["N"], 2.0
    x = records.get("id1", N, shard["seed"])
    out = {"evals": 0, "nontrivial": 0, "failures": [], "samples": [], "extra": {"analyses": 0, "bins": 0, "single_bin": 0, "bands": 0}}
    for target, olap in ((150, 0.5), (220, 0.0)):
        kw = dict(olap=olap, Jdes=target, Kdes=10, order=0, scheduler=shard["sched"], backend="numba", win="hann", force_target_nf=True)
        try:
            full = ana.make_analyzer(x.copy(), fs, **kw).compute()
        except (RuntimeError, ValueError):
            continue
        pf, rf = ana.plan_fields(full), ana.raw_fields(full)
        f = pf["f"]
        for lo, hi in ((0.05, 0.4), (0.0, 0.11), (float(f[3]), float(f[len(f) // 2])), (0.3, 1.0)):
            mask = (f >= lo) & (f <= hi)
            out["evals"] += 1
            out["extra"]["bands"] += 1
            out["nontrivial"] += int(mask.any())
            case = dict(shard)
            try:
                b = ana.make_analyzer(x.copy(), fs, band=(lo, hi), **kw).compute()
            except ValueError:
                if not mask.any():
                    continue
                out["failures"].append(fw.fail(f"forceband/raises/{shard['sched']}", f"force_target_nf={target} with band=({lo},{hi}) raised although {int(mask.sum())} bins are in the band", case))
                continue
            except RuntimeError as e:
                out["failures"].append(fw.fail(f"forceband/raises/{shard['sched']}", f"force_target_nf={target} with band=({lo},{hi}) raised {e} although the unrestricted forced analysis succeeds", case))
                continue
            bp, br = ana.plan_fields(b), ana.raw_fields(b)
            prob = [k for k in ana.PLANF if np.asarray(bp[k]).shape != np.asarray(pf[k][mask]).shape or not np.allclose(np.asarray(bp[k], dtype=float), np.asarray(pf[k][mask], dtype=float), rtol=1e-13, atol=0)]
            prob += [k for k in ana.RAW if br[k].shape != rf[k][mask].shape or not np.allclose(br[k], rf[k][mask], rtol=1e-12, atol=0)]
            if prob:
                out["failures"].append(fw.fail(f"forceband/{shard['sched']}/{'+'.join(prob[:4])}", f"force_target_nf={target}, band=({lo},{hi}): banded analysis has {len(bp['f'])} bins, the unrestricted one has {int(mask.sum())} in that band; fields {prob} differ", case))
    out["samples"].append({"forceband": shard["sched"], "N": N})
    return out


def _customband(shard):
    """Band restriction with a plan from a user-supplied scheduler whose frequencies are not in ascending order."""
    from speckit.schedulers import ltf_plan

    ana.quiet()
    N, fs = shard["N"], 2.0
    x, y = records.get("id1", N, shard["seed"]), records.get("id3", N, shard["seed"])
    out = {"evals": 0, "nontrivial": 0, "failures": [], "samples": [], "extra": {"analyses": 0, "bins": 0, "single_bin": 0, "bands": 0}}

    def zoom_plan(**kw):
        p = ltf_plan(**kw)
        Lz, Kz = 64, 1 + (N - 64) // 32
        fz = 0.31 + 0.004 * np.arange(9)
        Dz = [np.arange(Kz, dtype=np.int64) * 32 for _ in fz]
        q = {"f": np.concatenate([np.asarray(p["f"], float), fz]), "r": np.concatenate([np.asarray(p["r"], float), np.full(9, fs / Lz)]),
             "b": np.concatenate([np.asarray(p["b"], float), fz * Lz / fs]), "L": np.concatenate([np.asarray(p["L"]), np.full(9, Lz)]).astype(np.int64),
             "K": np.concatenate([np.asarray(p["K"]), np.full(9, Kz)]).astype(np.int64), "navg": np.concatenate([np.asarray(p["navg"]), np.full(9, Kz)]).astype(np.int64),
             "O": np.concatenate([np.asarray(p["O"], float), np.full(9, 0.5)]), "D": [np.asarray(d, dtype=np.int64) for d in p["D"]] + Dz}
        q["nf"] = len(q["f"])
        return q

    kw = dict(olap=0.5, Jdes=14, Kdes=3, order=0, scheduler=zoom_plan, backend=shard["backend"], win="hann")
    for mode in ("auto", "cross"):
        data = x.copy() if mode == "auto" else np.stack([x, y])
        try:
            full = ana.make_analyzer(data, fs, **kw).compute()
        except Exception as e:  # noqa: BLE001
            out["evals"] += 1
            out["failures"].append(fw.fail(f"customband/raises/{mode}", f"analysis with a user-supplied scheduler raised {type(e).__name__}: {e}", dict(shard)))
            continue
        pf, rf = ana.plan_fields(full), ana.raw_fields(full)
        f = pf["f"]
        for lo, hi in ((0.3, 0.35), (0.2, 0.5), (0.0, 0.32), (0.325, 1.0), (0.05, 0.3)):
            mask = (f >= lo) & (f <= hi)
            out["evals"] += 1
            out["extra"]["bands"] += 1
            out["nontrivial"] += int(mask.any())
            try:
                b = ana.make_analyzer(data, fs, band=(lo, hi), **kw).compute()
            except Exception as e:  # noqa: BLE001
                out["failures"].append(fw.fail(f"customband/raises/{mode}", f"band=({lo},{hi}) raised {type(e).__name__}: {e} ({int(mask.sum())} bins in band)", dict(shard)))
                continue
            bp, br = ana.plan_fields(b), ana.raw_fields(b)
            prob = [k for k in ana.PLANF if np.asarray(bp[k]).shape != np.asarray(pf[k][mask]).shape or not np.allclose(np.asarray(bp[k], dtype=float), np.asarray(pf[k][mask], dtype=float), rtol=1e-13, atol=0)]
            prob += [k for k in ana.RAW if br[k].shape != rf[k][mask].shape or not np.allclose(br[k], rf[k][mask], rtol=1e-12, atol=0)]
            if prob and not any(f_["key"] == f"customband/{mode}" for f_ in out["failures"]):
                out["failures"].append(fw.fail(f"customband/{mode}", f"user-supplied scheduler with an unsorted grid, band=({lo},{hi}): banded analysis has {len(bp['f'])} bins, the unrestricted one has {int(mask.sum())} in that band; fields {prob} differ", dict(shard)))
    out["samples"].append({"customband": shard["backend"]})
    return out


def replay(case):
    if case.get("forceband"):
        return _forceband(case)["failures"]
    if case.get("customband"):
        return _customband(case)["failures"]
    if case.get("part") == "pairs":
        return run_shard(case)["failures"]
    return run_shard({"backend": case["backend"], "case": case})["failures"]


def _mk(case, tag, msg):
    key = f"{tag}/{case['sched']}/{case['backend']}/{case['mode']}/order={case['order']}/win={case['win']}"
    return fw.fail(key, f"{key}: {msg} :: case={case}", case)


def _one(case, full=True, light_single=False):
    ana.quiet()
    N, order, mode = case["N"], case["order"], case["mode"]
    fs = float(case.get("fs", 2.0))
    x, y = ana.data_for(mode, N, case["rx"], case["ry"], case["seed"])
    wkw, wref = ana.win_spec(case["win"])
    kw = dict(olap=case["olap"], bmin=case["bmin"], Lmin=case["Lmin"], Jdes=case["Jdes"], Kdes=case["Kdes"],
              order=order, scheduler=case["sched"], backend=case["backend"], **wkw)
    out = {"evals": 0, "nontrivial": 0, "failures": [], "samples": [],
           "extra": {"analyses": 1, "bins": 0, "single_bin": 0, "bands": 0}}
    try:
        an = ana.make_analyzer(ana.as_input(x, y), fs, **kw)
        res = an.compute()
    except Exception as e:  # noqa: BLE001
        out["evals"] = 1
        out["failures"].append(_mk(case, "raises", f"compute() raised {type(e).__name__}: {e}"))
        return out
    pf = ana.plan_fields(res)
    rf = ana.raw_fields(res)
    nf = len(pf["f"])
    wcache = {}

    def wv(L):
        if L not in wcache:
            wcache[L] = np.ascontiguousarray(wref(L), dtype=np.float64)
        return wcache[L]

    for j in range(nf):
        L = int(pf["L"][j])
        w = wv(L)
        ref, tol = ana.ref_bin(x, y, fs, pf["f"][j], L, pf["D"][j], w, order)
        bad, got = ana.bin_mismatch(rf, j, ref, tol, y is None)
        out["evals"] += 1
        out["nontrivial"] += int(any(abs(r_) > 1e3 * t_ for r_, t_ in zip(ref, tol)))
        s1, s2 = float(np.sum(w)), float(np.sum(w * w))
        if not (abs(rf["S12"][j] - s1 * s1) <= 1e-11 * s1 * s1 + 1e-300):
            bad.append("S12")
        if not (abs(rf["S2"][j] - s2) <= 1e-11 * s2 + 1e-300):
            bad.append("S2")
        if bad:
            if nf > 1024:
                bad = [f"nf>{1024}"] + bad
            out["failures"].append(_mk(case, "bin/" + "+".join(bad),
                                       f"bin {j} f={pf['f'][j]!r} L={L} D={pf['D'][j].tolist()}: got {got} S12={rf['S12'][j]!r} S2={rf['S2'][j]!r}; reference {ref} (sum w)^2={s1 * s1!r} sum w^2={s2!r} tol {tol}"))
            break
    out["extra"]["bins"] = nf
    if not out["samples"]:
        out["samples"].append({"case": case, "nf": nf, "L": pf["L"].tolist()[:6], "XX": rf["XX"].tolist()[:3]})

    # ---- single-bin requests -------------------------------------------------
    if full or light_single:
        js = range(nf) if full else [0, nf - 1]
        for j in js:
            for how in ("L", "fres", "fres-offgrid", "L-offgrid"):
                fj = float(pf["f"][j])
                Lreq = int(pf["L"][j])
                try:
                    if how == "L":
                        sb = an.compute_single_bin(fj, L=Lreq)
                    elif how == "fres":
                        sb = an.compute_single_bin(fj, fres=float(pf["r"][j]))
                    elif how == "fres-offgrid":
                        # a resolution that is not fs/integer: the segment length is the nearest integer
                        fr = float(pf["r"][j]) * 1.07
                        Lreq = max(1, int(round(fs / fr)))
                        if Lreq > N:
                            continue
                        sb = an.compute_single_bin(fj, fres=fr)
                    else:
                        # a frequency between the plan's bins, a length that is not in the plan
                        fj = float(pf["f"][j]) * 1.013 + 5e-4 * fs
                        Lreq = max(1, min(N, int(pf["L"][j]) - 1 if int(pf["L"][j]) > 1 else 2))
                        sb = an.compute_single_bin(fj, L=Lreq)
                except Exception as e:  # noqa: BLE001
                    out["failures"].append(_mk(case, f"single/{how}/raises", f"compute_single_bin({fj!r}, {how}) raised {type(e).__name__}: {e}"))
                    continue
                out["evals"] += 1
                out["extra"]["single_bin"] += 1
                sd = api.raw(sb)
                Ls = int(sd["L"][0])
                Ds = np.asarray(sd["D"][0], dtype=np.int64)
                prob = []
                if Ls != Lreq:
                    prob.append(f"L={Ls} != requested {Lreq}")
                if float(sd["f"][0]) != fj:
                    prob.append(f"f={sd['f'][0]!r}")
                if int(sd["K"][0]) != Ds.size or int(sd["navg"][0]) != Ds.size:
                    prob.append(f"K/navg {int(sd['K'][0])}/{int(sd['navg'][0])} != {Ds.size} starts")
                if Ds.size < 1 or Ds.min() < 0 or Ds.max() + Ls > N:
                    prob.append(f"starts {Ds.tolist()} outside record")
                    out["failures"].append(_mk(case, f"single/{how}/segmentation", "; ".join(prob)))
                    continue
                w = wv(Ls)
                ref, tol = ana.ref_bin(x, y, fs, fj, Ls, Ds, w, order)
                bad, got = ana.bin_mismatch(ana.raw_fields(sb), 0, ref, tol, y is None)
                s1, s2 = float(np.sum(w)), float(np.sum(w * w))
                if not (abs(sd["S12"][0] - s1 * s1) <= 1e-11 * s1 * s1 + 1e-300) or not (abs(sd["S2"][0] - s2) <= 1e-11 * s2 + 1e-300):
                    bad.append("S12/S2")
                if bad or prob:
                    out["failures"].append(_mk(case, f"single/{how}/" + "+".join(bad or ["fields"]),
                                               f"single-bin at f={fj!r} ({how}): {prob} got {got} reference {ref} tol {tol} D={Ds.tolist()}"))
                    break

    # ---- band restriction ----------------------------------------------------
    if full:
        f = pf["f"]
        sel = list(range(nf)) if nf <= 8 else [0, 1, 2, nf // 2, nf - 3, nf - 2, nf - 1]
        pts = sorted({0.0, fs} | {float(f[i]) for i in sel} | {float(0.5 * (f[i] + f[i + 1])) for i in sel if i + 1 < nf})
        pairs = [(a, b) for a in pts for b in pts if a <= b]
        for n_, (lo, hi) in enumerate(pairs):
            mask = (f >= lo) & (f <= hi)
            out["evals"] += 1
            out["extra"]["bands"] += 1
            an2 = ana.make_analyzer(ana.as_input(x, y), fs, band=(lo, hi), **kw)
            do_compute = (n_ % 5 == 0)
            try:
                pl = an2.plan()
                r2 = an2.compute() if do_compute else None
            except ValueError as e:
                if not mask.any():
                    continue  # an empty band is rejected with an error: what the property asks for
                out["failures"].append(_mk(case, "band/raises", f"band=({lo!r},{hi!r}) raised ValueError: {e}; in-band bins {int(mask.sum())}"))
                break
            except Exception as e:  # noqa: BLE001
                out["failures"].append(_mk(case, "band/raises", f"band=({lo!r},{hi!r}) raised {type(e).__name__}: {e}"))
                break
            if not mask.any():
                out["failures"].append(_mk(case, "band/empty", f"band=({lo!r},{hi!r}) has no in-band bin but no error was raised"))
                break
            bp = ana.plan_fields(pl)
            prob = []
            for k in ana.PLANF:
                a_, b_ = np.asarray(bp[k]), np.asarray(pf[k][mask])
                ok_ = a_.shape == b_.shape and (np.array_equal(a_, b_) if a_.dtype.kind in "iu" else np.allclose(a_, b_, rtol=1e-13, atol=0))
                if not ok_:
                    prob.append(k)
            want = [d for d, m in zip(pf["D"], mask) if m]
            if len(bp["D"]) != len(want) or any(not np.array_equal(a, b) for a, b in zip(bp["D"], want)):
                prob.append("D")
            if int(pl["nf"]) != int(mask.sum()):
                prob.append("nf")
            if r2 is not None and not prob:
                rf2 = ana.raw_fields(r2)
                for k in ana.RAW:
                    a, b = rf2[k], rf[k][mask]
                    if a.shape != b.shape or not np.allclose(a, b, rtol=1e-12, atol=0):
                        prob.append(k)
                bp2 = ana.plan_fields(r2)
                if not np.array_equal(bp2["f"], pf["f"][mask]):
                    prob.append("result.f")
            if prob:
                out["failures"].append(_mk(case, "band/" + "+".join(prob), f"band=({lo!r},{hi!r}): fields {prob} differ from the in-band slice of the unrestricted analysis"))
                break
    return out
