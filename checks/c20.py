"""
C20 - derived result quantities and exports are consistent views of one estimate.

E1: for every result in the stated set and every public attribute name: documented
relation to the raw per-bin fields (or None when not applicable); get_measurement at
grid points / midpoints / outside, scalar and array queries, for every array-valued
name; to_dataframe = exactly the 1-D per-bin arrays indexed by f.
E2: BFS over histories of {read attribute, get_measurement, to_dataframe, copy,
deepcopy, pickle round trip (protocols 2-5)} on real result objects rebuilt from the
history: every value read afterwards equals the value a fresh result gives, cached
entries are returned unchanged, the raw data are never modified.
"""
import itertools

import numpy as np

from mc import ana, api, framework as fw, histories, records
from mc import resultmodel as rm

PROPERTY = "C20"
META = {
    "level": "model_checking",
    "rule": ("E1: full product result x attribute name (relation table) and result x array-valued name x query kind; E2: explicit-state BFS "
             "over operation histories up to the stated depth over the full alphabet (every public attribute + 3 interpolated reads + "
             "DataFrame export + 6 copy/pickle operations), states deduplicated by a hash of the complete object state (vars() recursively); transitions are "
             "real calls on objects rebuilt from the history; non-trivial: every transition (all baseline values are defined)"),
    "exhaustive": True,
    "bounds": {"quick": "results: auto/cross x {ragged plan, equal-K plan, single-bin by L, single-bin by a non-dividing fres} + Lmin=N plan; E2 depth 2", "thorough": "E2 depth 3 for reads and copies"},
    "assumptions": ["fresh value = value read first on a newly constructed result with the same raw fields",
                    "the hash covers vars(result) recursively, so equal hashes have equal futures"],
}
RESULTS = ("auto/ragged", "cross/ragged", "auto/equalK", "cross/equalK", "auto/single", "cross/single", "cross/LminN", "auto/LminN",
           "auto/singlefres", "cross/singlefres", "cross/delayed")
BIG = ("auto/manybins", "cross/manybins",    # relation table only (1600 bins)
       "auto/tinyfs", "cross/tinyfs", "cross/hugefs",
       "cross/unitgap", "cross/unitgap2")   # channels whose units are 160 decades apart (|Hxy| ~ 1e160 / 1e-160)   # relation table, interpolation and export in nano-hertz / mega-hertz units


def make_raw(kind, seed=0):
    """Returns (results_dict (pristine), config, iscsd, fs) obtained from a real analysis."""
    ana.quiet()
    mode, shape = kind.split("/")
    N, fs = 64, 4.0
    x, y = ana.data_for(mode if mode == "auto" else "cross", N, "id1", "id2", seed)
    if shape == "delayed":  # second channel = first delayed by 9 samples: the transfer phase wraps several times
        N = 256
        x = records.get("id1", N, seed)
        y = np.concatenate([np.full(9, x[0]), x[:-9]]) + 0.05 * records.get("id2", N, seed)
    kw = dict(olap=0.5, Jdes=12, Kdes=3, order=0, scheduler="ltf", win="hann", backend="numba")
    if shape == "equalK":
        kw.update(Lmin=16, olap=0.0, band=(0.6, 2.0))
    if shape == "LminN":
        kw.update(Lmin=N)
    if shape == "delayed":
        kw.update(Lmin=64, Jdes=40)
    if shape == "unitgap":
        x, y = x * 1e-100, y * 1e60
    if shape == "unitgap2":
        x, y = x * 1e60, y * 1e-100
    if shape == "tinyfs":
        fs = 3e-8
    if shape == "hugefs":
        fs = 4e7
    if shape == "manybins":
        N = 4096
        x, y = ana.data_for(mode if mode == "auto" else "cross", N, "id1", "id3", seed)
        kw.update(Jdes=6000, Kdes=1, olap=0.0)
    an = ana.make_analyzer(ana.as_input(x, y), fs, **kw)
    if shape == "single":
        r = an.compute_single_bin(0.7, L=16)
    elif shape == "singlefres":
        r = an.compute_single_bin(0.7, fres=fs / 16.3)  # a resolution that is not fs/integer
    else:
        r = an.compute()
    d = api.raw_dict(r)
    d["compute_t"] = np.zeros_like(np.asarray(d["compute_t"], dtype=float))
    return rm.clone_raw(d), dict(an.config), r.iscsd, r.fs


def fresh(raw):
    from speckit.analysis import SpectrumResult

    d, cfg, iscsd, fs = raw
    return SpectrumResult(rm.clone_raw(d), cfg, iscsd, fs)


def shards(tier, seed):
    out = []
    for k in BIG:
        out.append({"part": "relations", "result": k, "seed": seed})
    for k in RESULTS:
        out.append({"part": "relations", "result": k, "seed": seed})
        depth = 2
        out.append({"part": "hist", "result": k, "seed": seed, "depth": depth, "alphabet": "full"})
        if tier == "thorough":
            out.append({"part": "hist", "result": k, "seed": seed, "depth": 3, "alphabet": "copies+key"})
    out.append({"part": "constructed", "seed": seed})
    for how in ("copy", "deepcopy", "pickle:2", "pickle:3", "pickle:4", "pickle:5"):
        out.append({"part": "two", "how": how, "seed": seed})
    out.sort(key=lambda s: 0 if s["part"] == "hist" else 1)
    return out


def run_shard(shard):
    ana.quiet()
    return {"relations": _relations, "hist": _hist, "constructed": _constructed, "hist1": _hist1, "two": _two}[shard["part"]](shard)


def replay(case):
    return run_shard(case)["failures"]


# ---------------------------------------------------------------------------
ERRNAMES = ("Gxy_dev", "Hxy_dev", "coh_dev", "Gxy_error", "Hxy_mag_error", "Hxy_rad_error", "Hxy_deg_error", "coh_error")


# quantities that are a difference of two terms of the size of Gyy ((1-coh)*Gyy): a correct implementation may form them in another
# order or clamp them at zero, so they are compared to rounding *of Gyy*, not of their own (possibly cancelled) value
CANCEL = ("GyyRx", "GyySx")


def check_relations(res, raw, tag, out, seen, case):
    d, cfg, iscsd, fs = raw
    exp = rm.expected(d, iscsd, fs)
    names = rm.dynamic_names(res)
    aliases = set()
    nf = len(d["f"])

    def add(key, msg):
        key = f"{tag}/{key}"
        if key not in seen:
            seen.add(key)
            out["failures"].append(fw.fail(key, f"{key}: {msg}", case))

    for need in rm.AUTO_ONLY + rm.CROSS_ONLY + ("Gxx", "Gyy", "Gxy", "ENBW"):
        if need not in names:
            try:
                getattr(res, need)
                names.append(need)  # readable alias that dir() does not list (e.g. 'G')
                aliases.add(need)
            except AttributeError:
                add(f"missing/{need}", f"attribute {need} is not readable")
    for a in names:
        out["evals"] += 1
        v = getattr(res, a)
        if a in exp:
            out["nontrivial"] += 1
            if exp[a] is None:
                if v is not None:
                    add(f"none/{a}", f"{a} should be None for {'a cross' if iscsd else 'an auto'}-spectrum, got {type(v).__name__}")
            elif v is None:
                add(f"isnone/{a}", f"{a} is None")
            elif not rm.values_equal(v, exp[a], 1e-11, scale=exp["Gyy"] if a in CANCEL else None):
                add(f"relation/{a}", f"{a}={np.asarray(v).tolist()[:4]} but the documented function of the raw fields gives {np.asarray(exp[a]).tolist()[:4]}")
        elif a in ERRNAMES:
            if (v is None) != (not iscsd):
                add(f"none/{a}", f"{a} None-ness wrong for iscsd={iscsd}")
    # pairwise relations named in the property (checked on what the object returns)
    if iscsd:
        if not rm.values_equal(res.cs, res.csd * res.ENBW, 1e-13) or not rm.values_equal(res.cf, np.abs(res.Hxy), 1e-13):
            add("pair/cs-cf", "cs != csd*ENBW or cf != |Hxy|")
        with np.errstate(all="ignore"):
            if not rm.values_equal(res.cf_db, 20 * np.log10(res.cf), 1e-12):
                add("pair/cf_db", f"cf_db={np.asarray(res.cf_db).tolist()[:3]} != 20*log10(cf)={(20 * np.log10(res.cf)).tolist()[:3]}")
        if not rm.values_equal(res.cf_deg, np.asarray(res.cf_rad) * 180 / np.pi, 1e-12) or \
                not rm.values_equal(res.cf_deg_unwrapped, np.asarray(res.cf_rad_unwrapped) * 180 / np.pi, 1e-12):
            add("pair/deg-rad", "degree and radian phases not related by 180/pi")
        # unwrapped phases: the same angle modulo a full turn, no jump larger than half a turn between neighbouring bins
        # (which multiple of 2*pi the curve starts from is not pinned by the property)
        ru, rr = np.asarray(res.cf_rad_unwrapped, dtype=float), np.asarray(res.cf_rad, dtype=float)
        fin_ = np.isfinite(ru) & np.isfinite(rr)
        dphi = (ru - rr)[fin_] / (2 * np.pi)
        if not (np.all(np.abs(dphi - np.round(dphi)) <= 1e-9) and (fin_.sum() < 2 or np.all(np.abs(np.diff(ru[fin_])) <= np.pi + 1e-9))):
            add("pair/unwrap", f"cf_rad_unwrapped is not cf_rad modulo 2*pi with jumps below pi: {ru.tolist()[:6]} vs {rr.tolist()[:6]}")
        if not rm.values_equal(res.Gyx, np.conj(res.Gxy), 0) or not rm.values_equal(res.Hyx, np.conj(res.Hxy), 0):
            add("pair/conj", "Gyx/Hyx are not the conjugates of Gxy/Hxy")
        if not rm.values_equal(np.asarray(res.Hxy_deg_error), np.asarray(res.Hxy_rad_error) * 180 / np.pi, 1e-12):
            add("pair/deg-rad-error", "Hxy_deg_error != Hxy_rad_error*180/pi")
    else:
        if not rm.values_equal(np.asarray(res.asd) ** 2, res.psd, 1e-12) or not rm.values_equal(res.ps, res.psd * res.ENBW, 1e-13):
            add("pair/asd-ps", "asd^2 != psd or ps != psd*ENBW")
    # ---- get_measurement ----
    f = np.asarray(d["f"], dtype=float)
    for a in names:
        v = getattr(res, a)
        if not (isinstance(v, np.ndarray) and v.ndim == 1 and v.shape[0] == nf and v.dtype.kind in "fciu"):
            continue
        out["evals"] += 1
        out["nontrivial"] += 1
        vv = v.astype(complex) if v.dtype.kind == "c" else v.astype(float)
        fin = np.isfinite(vv)
        try:
            at = res.get_measurement(f, a)
            one = res.get_measurement(float(f[0]), a)
            lo = res.get_measurement(float(f[0]) - 0.3, a)
            hi = res.get_measurement(np.array([f[-1] + 1.0, f[-1] + 5.0]), a)
        except Exception as e:  # noqa: BLE001
            add(f"meas/raises/{a}", f"get_measurement(..., {a!r}) raised {type(e).__name__}: {e}")
            continue
        if not (np.shape(at) == (nf,) and rm.values_equal(np.asarray(at)[fin], vv[fin], 1e-14)):
            add(f"meas/grid", f"get_measurement at the grid frequencies != tabulated {a}")
        if np.ndim(one) != 0 or (fin[0] and not rm.values_equal(one, vv[0], 1e-14)):
            add(f"meas/scalar", f"scalar query of {a} at f[0] returned {one!r} (tabulated {vv[0]!r})")
        if fin[0] and not rm.values_equal(lo, vv[0], 1e-14):
            add(f"meas/clamp-low", f"{a} below the grid: {lo!r} != first value {vv[0]!r}")
        if fin[-1] and not (np.shape(hi) == (2,) and rm.values_equal(hi, np.array([vv[-1], vv[-1]]), 1e-14)):
            add(f"meas/clamp-high", f"{a} above the grid: {hi!r} != last value {vv[-1]!r}")
        if nf > 1:
            for frac in (0.5, 0.25):
                q = f[:-1] + frac * np.diff(f)
                got = np.asarray(res.get_measurement(q, a))
                want = vv[:-1] + frac * (vv[1:] - vv[:-1])
                m = fin[:-1] & fin[1:]
                scale = np.maximum(np.abs(vv[:-1]), np.abs(vv[1:]))[m]
                if not np.all(np.abs(got[m] - want[m]) <= 1e-12 * scale + 1e-300):
                    add(f"meas/linear", f"{a} between grid points is not linear in Re and Im separately (fraction {frac})")
    # ---- to_dataframe ----
    out["evals"] += 1
    out["nontrivial"] += 1
    try:
        df = res.to_dataframe()
    except Exception as e:  # noqa: BLE001
        add("df/raises", f"to_dataframe() raised {type(e).__name__}: {e}")
        return
    if not np.array_equal(np.asarray(df.index, dtype=float), f):
        add("df/index", "DataFrame index is not the frequency vector")
    want_cols = set()
    for a in names:
        if a in ("f",) or a in aliases:
            continue
        v = getattr(res, a)
        if isinstance(v, np.ndarray) and v.ndim == 1 and v.shape[0] == nf:
            want_cols.add(a)
    if set(df.columns) != want_cols:
        add("df/columns", f"DataFrame columns differ from the per-bin arrays: missing {sorted(want_cols - set(df.columns))}, extra {sorted(set(df.columns) - want_cols)}")
    for a in sorted(want_cols & set(df.columns)):
        col = df[a].to_numpy()
        v = getattr(res, a)
        ok = rm.identical(np.asarray(col, dtype=v.dtype) if v.dtype != object else col, v) if v.dtype != object else \
            all(np.array_equal(np.asarray(p), np.asarray(q)) for p, q in zip(col, v))
        if not ok:
            add("df/values", f"DataFrame column {a} differs from result.{a}")
            break


def _relations(shard):
    raw = make_raw(shard["result"], shard["seed"])
    out = {"evals": 0, "nontrivial": 0, "failures": [], "samples": [], "extra": {}}
    seen = set()
    res = fresh(raw)
    check_relations(res, raw, f"rel/{shard['result']}", out, seen, dict(shard))
    out["samples"].append({"result": shard["result"], "nf": len(raw[0]["f"]), "names": len(rm.dynamic_names(res))})
    return out


def _constructed(shard):
    from checks.c10 import build_result

    out = {"evals": 0, "nontrivial": 0, "failures": [], "samples": [], "extra": {}}
    seen = set()
    for iscsd, fs, S2 in itertools.product((True, False), (1.0, 1000.0), (0.3, 40.0)):
        pts = [(g2, n, xx, yy, arg) for g2, n, xx, yy, arg in itertools.product((0.01, 0.5, 0.99), (1, 7), (1e-6, 3.0), (2.0, 1e6), (0.3, -2.5, 3.1))]
        r = build_result(fs, S2, iscsd, pts)
        d = api.raw_dict(r)
        raw = (d, {}, iscsd, fs)
        check_relations(fresh(raw), raw, f"rel/constructed/{'csd' if iscsd else 'auto'}", out, seen, dict(shard))
    out["samples"].append({"constructed": "g2 x n x XX x YY x arg grid, 72 bins"})
    return out


# ---------------------------------------------------------------------------
class Holder:
    def __init__(self, obj):
        self.obj = obj


def alphabet(names, kind, iscsd):
    key = ["Gxx", "coh" if iscsd else "asd", "Hxy" if iscsd else "ps", "Gxy_dev" if iscsd else "Gxx_dev", "D", "f"]
    ops = []
    # drawing a result must not change it: plot calls (with a 3-sigma error band, which reads the cached deviations) are operations too
    plots = [("plot", w, True, 3) for w in ((None, "coh", "csd", "cf") if iscsd else (None, "psd"))]
    if kind == "full":
        ops += [("get", a) for a in names] + plots
    elif kind == "copies+key":
        ops += [("get", a) for a in key if a in names] + plots[:2]
    elif kind == "reads":
        ops += [("get", a) for a in names] + plots
        return ops
    ops += [("meas", "Gxx", "grid"), ("meas", "coh" if iscsd else "asd", "mid"), ("meas", "Hxy" if iscsd else "ENBW", "outside")]
    ops += [("df",), ("copy",), ("deepcopy",), ("pickle:2",), ("pickle:3",), ("pickle:4",), ("pickle:5",)]
    return ops


def apply_op(h, op, f):
    r = h.obj
    if op[0] == "get":
        return getattr(r, op[1])
    if op[0] == "meas":
        q = {"grid": f, "mid": (f[:-1] + 0.5 * np.diff(f)) if len(f) > 1 else f + 0.1, "outside": np.array([f[0] - 1.0, f[-1] + 2.0])}[op[2]]
        return r.get_measurement(q, op[1])
    if op[0] == "df":
        return r.to_dataframe()
    if op[0] == "plot":
        import matplotlib
        matplotlib.use("Agg", force=False)
        import matplotlib.pyplot as plt
        try:
            out = r.plot(op[1], errors=op[2], sigma=op[3])
            plt.close(out[0])
            return None
        except Exception as e:  # noqa: BLE001  (whether a given plot is possible for this result is not the subject; that it behaves the same after any history is)
            plt.close("all")
            return np.array([hash(type(e).__name__) % 1000], dtype=np.int64)
    h.obj = rm.roundtrip(r, op[0])
    return None


def obs_equal(a, b):
    import pandas as pd

    if isinstance(a, pd.DataFrame) or isinstance(b, pd.DataFrame):
        if not (isinstance(a, pd.DataFrame) and isinstance(b, pd.DataFrame)):
            return False
        if list(a.columns) != list(b.columns) or not np.array_equal(a.index.to_numpy(), b.index.to_numpy()):
            return False
        return all(rm.identical(a[c].to_numpy(), b[c].to_numpy()) for c in a.columns)
    return rm.identical(a, b)


def explore(raw, ops, depth, tag, case0, max_states=400000):
    """BFS over histories; returns (Explorer, failures as fw.fail list)."""
    d0, cfg, iscsd, fs = raw
    f = np.asarray(d0["f"], dtype=float)
    probe = fresh(raw)
    names = rm.dynamic_names(probe)
    # baseline: value of every op on a fresh object
    base = {}
    for op in ops:
        if op[0] in ("get", "meas", "df"):
            base[op] = apply_op(Holder(fresh(raw)), op, f)
    base_attr = {a: getattr(fresh(raw), a) for a in names}

    def make():
        return Holder(fresh(raw))

    pre = {}

    def apply(h, op):
        r = h.obj
        # everything the object holds before the operation (raw fields and whatever it has cached, in whatever layout)
        st = api.flatten_state(r)
        pre["state"] = {p: (id(v), (np.array(v, copy=True) if isinstance(v, np.ndarray) else v)) for p, v in st.items()}
        try:
            return ("ok", apply_op(h, op, f))
        except Exception as e:  # noqa: BLE001
            return ("raised", f"{type(e).__name__}: {e}")

    def enabled(hist):
        return ops if len(hist) < depth else []

    def canon(h, hist):
        return histories.state_hash(h.obj)

    def invariant(hist, op, h, obs, allobs):
        res = []
        opn = op[0] + ("/" + str(op[1]) if len(op) > 1 else "")
        if obs[0] == "raised":
            return [(f"{tag}/raises/{opn}", f"after {list(hist)} the operation {op} raised {obs[1]}")]
        r = h.obj
        if op in base and not obs_equal(obs[1], base[op]):
            res.append((f"{tag}/value/{opn}", f"after {list(hist)} the operation {op} returned a value different from a fresh result's"))
        # whatever was stored in the object before the operation (raw data, cached attributes) is unchanged afterwards
        # (same content; whether it is the same array object is the implementation's business)
        now = api.flatten_state(r)
        for p_, (oid, v) in pre["state"].items():
            if p_ not in now:
                continue
            if not rm.identical(now[p_], v):
                res.append((f"{tag}/stored-value-changed/{opn}", f"after {list(hist)}+{op}: the stored value {p_} changed"))
                break
        # every value read afterwards equals the fresh value
        for a in names:
            try:
                v = getattr(r, a)
            except Exception as e:  # noqa: BLE001
                res.append((f"{tag}/read-raises/{a}", f"after {list(hist)}+{op}: reading {a} raised {type(e).__name__}: {e}"))
                break
            if not rm.identical(v, base_attr[a]):
                res.append((f"{tag}/stale/{a}", f"after {list(hist)}+{op}: {a} differs from the value a fresh result gives"))
                break
        return res

    ex = histories.Explorer(make, apply, enabled, canon, invariant, max_states=max_states).run()
    fails = [fw.fail(k, m, dict(case0, part="hist1", hist=[list(o) for o in hh])) for k, m, hh, *_ in ex.failures]
    return ex, fails, names


def _hist(shard):
    raw = make_raw(shard["result"], shard["seed"])
    names = rm.dynamic_names(fresh(raw))
    ops = alphabet(names, shard["alphabet"], raw[2])
    ex, fails, _ = explore(raw, ops, shard["depth"], f"hist/{shard['result']}", dict(shard))
    return {"evals": ex.transitions, "nontrivial": ex.transitions, "failures": fails,
            "samples": [{"result": shard["result"], "history": h} for h in ex.samples[:2]],
            "extra": {"states": ex.states, "transitions": ex.transitions, "traces_validated_against_impl": ex.replayed,
                      "max_depth": ex.max_depth, "alphabet_size": len(ops), "cap_hit": int(ex.capped)}}


def _hist1(case):
    """Replay one history without the explorer: rebuild, apply, compare every attribute with a fresh result."""
    raw = make_raw(case["result"], case["seed"])
    f = np.asarray(raw[0]["f"], dtype=float)
    h = Holder(fresh(raw))
    fails = []
    try:
        for op in case["hist"]:
            apply_op(h, tuple(op), f)
    except Exception as e:  # noqa: BLE001
        fails.append(fw.fail(f"hist/{case['result']}/raises/{case['hist'][-1][0]}", f"history {case['hist']} raised {type(e).__name__}: {e}", case))
        return {"evals": 1, "nontrivial": 1, "failures": fails, "samples": []}
    ref = fresh(raw)
    for a in rm.dynamic_names(ref):
        if not rm.identical(getattr(h.obj, a), getattr(fresh(raw), a)):
            fails.append(fw.fail(f"hist/{case['result']}/stale/{a}", f"history {case['hist']}: {a} differs from a fresh result's value", case))
            break
    return {"evals": 1, "nontrivial": 1, "failures": fails, "samples": []}


def _two(shard):
    """Histories over TWO results: clone A (after touching some attributes), read it, clone B, read everything on the clone of B,
    then read A's clone again - for every ordered pair (A, B) of the result set.  Clones must not share anything."""
    how = shard["how"]
    raws = {k: make_raw(k, shard["seed"]) for k in RESULTS}
    base = {}
    for k, raw in raws.items():
        names = rm.dynamic_names(fresh(raw))
        base[k] = (names, {a: getattr(fresh(raw), a) for a in names})
    out = {"evals": 0, "nontrivial": 0, "failures": [], "samples": [], "extra": {"two_result_histories": 0}}
    seen = set()

    def compare(obj, k, when, hist):
        names, vals = base[k]
        for a in names:
            try:
                v = getattr(obj, a)
            except Exception as e:  # noqa: BLE001
                return f"{when}: reading {a} raised {type(e).__name__}: {e}"
            if not rm.identical(v, vals[a]):
                return f"{when}: {a} differs from the value a fresh {k} result gives"
        return None

    for ka, kb in itertools.product(RESULTS, RESULTS):
        for touch in ((), ("Gxx", "ENBW"), ("f", "Gxy_dev", "coh")):
            ra = fresh(raws[ka])
            for a in touch:
                getattr(ra, a)
            ca = rm.roundtrip(ra, how)
            hist = [f"touch{list(touch)} on {ka}", f"{how}", f"{how} of fresh {kb}"]
            msg = compare(ca, ka, f"clone of {ka}", hist)
            rb = fresh(raws[kb])
            cb = rm.roundtrip(rb, how)
            msg = msg or compare(cb, kb, f"clone of {kb} made after a clone of {ka} was read", hist)
            msg = msg or compare(ca, ka, f"clone of {ka} re-read after a clone of {kb} was read", hist)
            # DataFrame exports of two different results in one process: each has exactly its own per-bin arrays
            for obj, kk in ((ca, ka), (cb, kb), (ca, ka)):
                if msg:
                    break
                names, vals = base[kk]
                nfk = len(raws[kk][0]["f"])
                want = {a for a in names if a != "f" and isinstance(vals[a], np.ndarray) and vals[a].ndim == 1 and vals[a].shape[0] == nfk}
                try:
                    cols = set(obj.to_dataframe().columns)
                except Exception as e:  # noqa: BLE001
                    msg = f"to_dataframe() of the clone of {kk} raised {type(e).__name__}: {e}"
                    break
                if cols != want:
                    msg = f"DataFrame of the clone of {kk}: missing {sorted(want - cols)}, extra {sorted(cols - want)}"
            msg = msg or compare(ra, ka, f"original {ka} after its clone was used", hist)
            out["evals"] += 1
            out["nontrivial"] += 1
            out["extra"]["two_result_histories"] += 1
            if msg:
                key = f"two/{how}/{'same' if ka == kb else 'different'}-result"
                if key not in seen:
                    seen.add(key)
                    out["failures"].append(fw.fail(key, f"{key}: history {hist}: {msg}", dict(shard)))
    out["samples"].append({"two-result history": [f"touch on {RESULTS[0]}", how, f"{how} of {RESULTS[1]}"]})
    return out
