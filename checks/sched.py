"""
Shared scheduler sweep for C02, C03, C04 (engine E1): the full configuration
lattice below is enumerated for all four schedulers, each called directly and
through SpectrumAnalyzer.plan(); every plan is checked against the predicates of
mc/ref/schedulers_spec.py for the property being decided.
"""
import itertools
import logging
import math

import numpy as np

from mc import framework as fw
from mc.ref import schedulers_spec as spec

SCHEDS = ("lpsd", "ltf", "vectorized_ltf", "new_ltf")


def lattice(tier):
    if tier == "quick":
        Ns = list(range(8, 41)) + [100, 127, 1000]
        fss = [1.0, 0.37, 1000.0]
        Jd = [1, 2, 5, 10, 50, 500]
        Kd = [1, 2, 10, 100]
    else:
        Ns = list(range(8, 65)) + [100, 127, 1000, 4096, 10000, 100000]
        fss = [1.0, 2.0, 0.37, 1000.0]
        Jd = [1, 2, 3, 5, 10, 50, 100, 500]
        Kd = [1, 2, 5, 10, 100]
    olaps = [0.0, 0.25, 0.3, 0.5, 2.0 / 3.0, 0.75, 0.9, 0.99]
    return Ns, fss, olaps, Jd, Kd


def bmins(N):
    c = [1.0, 1.5, 2.0, 3.7, N / 4.0, N / 2.0 - 0.01]
    out = []
    for b in c:
        if 1 <= b < N / 2 and b not in out:
            out.append(float(b))
    return out


def lmins(N):
    out = []
    for v in (1, 2, 5, N // 4, N // 2, (9 * N + 9) // 10, N - 1, N):
        if 1 <= v <= N and v not in out:
            out.append(int(v))
    return out


def shards_for(tier, seed, prop):
    Ns, fss, olaps, Jd, Kd = lattice(tier)
    out = []
    for N in Ns:
        big = N >= 1000
        for fs in ((fss if not big else fss[:2]) + ([3e-8, 4e7] if (N <= 16 or N == 100) else [])):
            if big:  # split the expensive shards along the overlap axis
                for oi in range(len(olaps)):
                    out.append({"prop": prop, "N": N, "fs": fs, "tier": tier, "olap_idx": [oi]})
            else:
                out.append({"prop": prop, "N": N, "fs": fs, "tier": tier})
    if tier == "quick":  # a few configurations at realistic record lengths (the thorough tier sweeps them)
        for N in (60000, 100000):
            for olap in (0.5, 0.75):
                out.append({"prop": prop, "N": N, "fs": 2.0, "tier": tier, "spot": True, "olap": olap})
    # bins with very many segments (K >= 2^16 needs N > 65536 and a high overlap): one instance beyond any plausible size switch
    if prop == "C04" or tier != "quick":
        for olap in (0.9, 0.95) if tier != "quick" else (0.9,):
            out.append({"prop": prop, "N": 200000, "fs": 2.0, "tier": tier, "spot": True, "olap": olap, "huge": True})
    if prop == "C02":   # one plan with more than 2^22 segments in a bin, built through the analyzer
        out.append({"prop": prop, "N": 2 ** 23 + 5, "fs": 2.0, "tier": tier, "mega": True})
    out.sort(key=lambda s: -s["N"])
    return out


def get_sched(name):
    from speckit import schedulers as S

    return {"lpsd": S.lpsd_plan, "ltf": S.ltf_plan, "vectorized_ltf": S.vectorized_ltf_plan,
            "new_ltf": S.new_ltf_plan}[name]


def _limit(cfg):
    # wall-clock guard against a non-terminating scheduler loop; generous for the large records of the thorough tier
    return 120 if cfg["N"] < 10000 else 900


def call_direct(name, cfg, limit=None):
    limit = limit or _limit(cfg)
    """Returns (plan, None) or (None, 'ExcType: msg')."""
    fn = get_sched(name)
    kw = dict(N=cfg["N"], fs=cfg["fs"], olap=cfg["olap"], Jdes=cfg["Jdes"], Kdes=cfg["Kdes"])
    if name != "lpsd":
        kw.update(bmin=cfg["bmin"], Lmin=cfg["Lmin"])
    try:
        with fw.time_limit(limit):
            with np.errstate(all="ignore"):
                return fn(**kw), None
    except fw.Timeout:
        return None, f"Timeout: no result after {limit}s"
    except SystemExit as e:
        return None, f"SystemExit: {e.code}"
    except Exception as e:  # noqa: BLE001
        return None, f"{type(e).__name__}: {e}"


def call_analyzer(name, cfg, limit=None, as_callable=False):
    """Plan through the analyzer; the scheduler is selected by name or (as_callable) by passing the scheduler function itself."""
    limit = limit or _limit(cfg)
    from speckit.analysis import SpectrumAnalyzer

    sched = get_sched(name) if as_callable else name

    try:
        with fw.time_limit(limit):
            with np.errstate(all="ignore"):
                an = SpectrumAnalyzer(np.zeros(cfg["N"]), cfg["fs"], olap=cfg["olap"], bmin=cfg["bmin"],
                                      Lmin=cfg["Lmin"], Jdes=cfg["Jdes"], Kdes=cfg["Kdes"], scheduler=sched,
                                      win="hann")
                return an.plan(), None
    except fw.Timeout:
        return None, f"Timeout: no result after {limit}s"
    except SystemExit as e:
        return None, f"SystemExit: {e.code}"
    except Exception as e:  # noqa: BLE001
        return None, f"{type(e).__name__}: {e}"


def regime(cfg, plan):
    """Coarse classification used in failure keys (never to suppress anything by
    itself): does some bin have (1-olap)*L < 1, i.e. more requested averages than
    distinct positions?"""
    try:
        L = np.asarray(plan["L"]).astype(float)
        return "dense" if np.any((1 - cfg["olap"]) * L < 1) else "normal"
    except Exception:  # noqa: BLE001
        return "na"


def cfgkey(cfg):
    return (f"N={cfg['N']},fs={cfg['fs']:g},olap={cfg['olap']:.4g},bmin={cfg['bmin']:.6g},"
            f"Lmin={cfg['Lmin']},Jdes={cfg['Jdes']},Kdes={cfg['Kdes']}")


def check_config(prop, name, cfg):
    """All failures of property `prop` for scheduler `name` on configuration cfg."""
    fails = []
    plan, err = call_direct(name, cfg)
    case = {"sched": name, "cfg": cfg, "prop": prop}
    if err is not None:
        if prop == "C02":  # 'has at least one segment per bin' presupposes a plan
            fails.append(fw.fail(f"{name}/direct-raises/{err.split(':')[0]}",
                                 f"{name}_plan({cfgkey(cfg)}) raised {err}", case))
        return fails, None
    pred = {"C02": spec.c02, "C03": spec.c03, "C04": spec.c04}[prop]
    try:
        res = pred(plan, cfg, name)
    except Exception as e:  # malformed plan
        res = [("malformed", f"{type(e).__name__}: {e}")]
    rg = regime(cfg, plan)
    for tag, msg in res:
        fails.append(fw.fail(f"{name}/{tag}/{rg}", f"{name}_plan({cfgkey(cfg)}): {msg}", case))
    if (prop == "C02" and cfg["Jdes"] in (1, 5, 50, 500)) or (prop == "C04" and cfg["Jdes"] in (5, 50) and cfg["Kdes"] in (2, 10)):
        aplan, aerr = call_analyzer(name, cfg)
        if aerr is not None:
            fails.append(fw.fail(f"{name}/analyzer-raises/{rg}",
                                 f"SpectrumAnalyzer(scheduler={name!r}, {cfgkey(cfg)}).plan() raised {aerr}", case))
        else:
            ares = spec.c02(aplan, cfg, name) if prop == "C02" else spec.c04(aplan, cfg, name)
            for tag, msg in ares:
                fails.append(fw.fail(f"{name}/analyzer/{tag}/{rg}",
                                     f"analyzer plan {name} ({cfgkey(cfg)}): {msg}", case))
            # the analyzer must hand the configured parameters to the scheduler unchanged
            def _same(k):
                a_, b_ = np.asarray(aplan[k]), np.asarray(plan[k])
                if a_.shape != b_.shape:
                    return False
                if k in ("L", "K", "navg"):
                    return bool(np.array_equal(a_, b_))
                return bool(np.allclose(a_.astype(float), b_.astype(float), rtol=1e-12, atol=1e-15))
            diff = [k for k in ("f", "r", "b", "L", "K", "navg", "O") if not _same(k)]
            if len(aplan["D"]) != len(plan["D"]) or any(not np.array_equal(np.asarray(a), np.asarray(b)) for a, b in zip(aplan["D"], plan["D"])):
                diff.append("D")
            if diff:
                fails.append(fw.fail(f"{name}/analyzer-differs/{'+'.join(diff)}",
                                     f"SpectrumAnalyzer(scheduler={name!r}, {cfgkey(cfg)}).plan() differs from {name}_plan called with the same parameters in {diff} (analyzer nf={len(aplan['f'])}, direct nf={len(plan['f'])})", case))
    if prop == "C02" and cfg["Jdes"] in (5, 50) and cfg["Kdes"] in (1, 2, 10):
        # the scheduler handed over as a function object (the other documented way of selecting it)
        cplan, cerr = call_analyzer(name, cfg, as_callable=True)
        if cerr is not None:
            fails.append(fw.fail(f"{name}/analyzer-callable-raises/{rg}",
                                 f"SpectrumAnalyzer(scheduler=<function {name}_plan>, {cfgkey(cfg)}).plan() raised {cerr}", case))
        else:
            for tag, msg in spec.c02(cplan, cfg, name):
                fails.append(fw.fail(f"{name}/analyzer-callable/{tag}/{rg}", f"analyzer plan via function {name}_plan ({cfgkey(cfg)}): {msg}", case))
    if prop == "C03" and name == "lpsd":
        p2, e2 = call_direct("ltf", dict(cfg, bmin=1.0, Lmin=1))
        if e2 is None:
            for tag, msg in spec.c03_lpsd_is_ltf(plan, p2):
                fails.append(fw.fail(f"lpsd/{tag}", f"({cfgkey(cfg)}): {msg}", case))
    return fails, plan


def run_shard_for(shard):
    logging.disable(logging.CRITICAL)
    prop, N, fs, tier = shard["prop"], shard["N"], shard["fs"], shard["tier"]
    _, _, olaps, Jd, Kd = lattice(tier)
    if N >= 10000:
        Jd = [j for j in Jd if j in (1, 5, 50, 500)]
        Kd = [1, 10, 100]
        olaps = [0.0, 0.5, 0.5, 0.75, 0.75, 0.99, 0.99, 0.0]  # 4 distinct values (indexable by olap_idx)
    if "olap_idx" in shard:
        olaps = sorted({olaps[i] for i in shard["olap_idx"]})
    if shard.get("mega"):
        fails, evals, nbins = [], 0, 0
        cfg = {"N": N, "fs": fs, "olap": 0.75, "bmin": 1.0, "Lmin": 1, "Jdes": 12, "Kdes": 10}
        for name in ("vectorized_ltf", "lpsd"):
            evals += 1
            aplan, aerr = call_analyzer(name, cfg, limit=1500)
            if aerr is not None:
                fails.append(fw.fail(f"{name}/analyzer-raises/mega", f"SpectrumAnalyzer(scheduler={name!r}, {cfgkey(cfg)}).plan() raised {aerr}", {"sched": "mega", "cfg": cfg, "prop": prop}))
                continue
            nbins += len(aplan["f"])
            for tag, msg in spec.c02(aplan, cfg, name):
                fails.append(fw.fail(f"{name}/analyzer/{tag}/mega", f"analyzer plan {name} ({cfgkey(cfg)}): {msg}", {"sched": "mega", "cfg": cfg, "prop": prop, "name": name}))
            del aplan
        return {"evals": evals, "nontrivial": evals, "failures": fails, "samples": [{"cfg": cfg, "mega": True}],
                "extra": {"rejected_inadmissible": 0, "bins_checked": nbins}}
    spot = shard.get("spot")
    if spot:
        olaps, Jd, Kd = [shard["olap"]], [50, 500], [10, 100]
        if shard.get("huge"):
            Jd, Kd = [50], [10]
    evals = nontriv = rejected = 0
    fails, samples = [], []
    seen = set()
    nbins = 0
    for olap, bmin, Lmin, J, K in itertools.product(olaps, bmins(N) if not spot else [1.0, 3.7], lmins(N) if not spot else [1, 1000], Jd, Kd):
        cfg = {"N": N, "fs": fs, "olap": olap, "bmin": bmin, "Lmin": Lmin, "Jdes": J, "Kdes": K}
        if not spec.admissible(cfg):
            rejected += 1
            continue
        plans = {}
        for name in SCHEDS:
            if name == "lpsd" and (bmin != 1.0 or Lmin != 1):
                # lpsd ignores bmin/Lmin: one representative is enough for the scheduler itself; an analyzer *configured* with
                # other values must still build the (same) LPSD plan, whichever way the scheduler is named
                if prop == "C02" and J in (5, 50) and K in (2, 10):
                    eff = dict(cfg, bmin=1.0, Lmin=1)
                    for as_callable in (False, True):
                        evals += 1
                        how = "function lpsd_plan" if as_callable else "'lpsd'"
                        aplan, aerr = call_analyzer("lpsd", cfg, as_callable=as_callable)
                        if aerr is not None:
                            res_ = [("raises", f"raised {aerr}")]
                        else:
                            try:
                                res_ = spec.c02(aplan, eff, "lpsd")
                            except Exception as e:  # noqa: BLE001
                                res_ = [("malformed", f"{type(e).__name__}: {e}")]
                        for tag, msg in res_:
                            key = f"lpsd/analyzer-configured-{'callable' if as_callable else 'name'}/{tag}"
                            if key not in seen:
                                seen.add(key)
                                fails.append(fw.fail(key, f"SpectrumAnalyzer(scheduler={how}, {cfgkey(cfg)}).plan(): {msg}",
                                                     {"sched": "lpsd-configured", "cfg": cfg, "prop": prop, "callable": as_callable}))
                continue
            fl, plan = check_config(prop, name, cfg)
            evals += 1
            if plan is not None:
                plans[name] = plan
                nb = len(plan["f"])
                nbins += nb
                if nb >= 2:
                    nontriv += 1
            for f_ in fl:
                if f_["key"] not in seen:
                    seen.add(f_["key"])
                    fails.append(f_)
        if prop == "C04" and "ltf" in plans and "vectorized_ltf" in plans:
            a, b = len(plans["ltf"]["f"]), len(plans["vectorized_ltf"]["f"])
            evals += 1
            if not (abs(a - b) <= max(1.0, 0.1 * a)):
                key = f"vec-vs-ltf/nf/{'J1' if J < 3 else 'J'}"
                if key not in seen:
                    seen.add(key)
                    fails.append(fw.fail(key, f"({cfgkey(cfg)}): vectorised scheduler has {b} bins, iterative {a} (more than 10% apart)",
                                         {"sched": "vec-vs-ltf", "cfg": cfg, "prop": prop}))
        if len(samples) < 1 and "ltf" in plans and len(plans["ltf"]["f"]) > 2:
            p = plans["ltf"]
            samples.append({"cfg": cfg, "sched": "ltf", "nf": len(p["f"]), "L": [int(v) for v in p["L"]][:8],
                            "navg": [int(v) for v in p["navg"]][:8]})
    return {"evals": evals, "nontrivial": nontriv, "failures": fails, "samples": samples,
            "extra": {"rejected_inadmissible": rejected, "bins_checked": nbins}}


def replay_for(case):
    logging.disable(logging.CRITICAL)
    if case["sched"] == "mega":
        return run_shard_for({"prop": case["prop"], "N": case["cfg"]["N"], "fs": case["cfg"]["fs"], "tier": "quick", "mega": True})["failures"]
    if case["sched"] == "lpsd-configured":
        cfg = case["cfg"]
        aplan, aerr = call_analyzer("lpsd", cfg, as_callable=case["callable"])
        res_ = [("raises", f"raised {aerr}")] if aerr is not None else spec.c02(aplan, dict(cfg, bmin=1.0, Lmin=1), "lpsd")
        return [fw.fail(f"lpsd/analyzer-configured-{'callable' if case['callable'] else 'name'}/{tag}", f"({cfgkey(cfg)}): {msg}", case) for tag, msg in res_]
    if case["sched"] == "vec-vs-ltf":
        cfg = case["cfg"]
        pa, ea = call_direct("ltf", cfg)
        pb, eb = call_direct("vectorized_ltf", cfg)
        if ea or eb:
            return []
        a, b = len(pa["f"]), len(pb["f"])
        if not (abs(a - b) <= max(1.0, 0.1 * a)):
            return [fw.fail(f"vec-vs-ltf/nf/{'J1' if cfg['Jdes'] < 3 else 'J'}",
                            f"({cfgkey(cfg)}): vectorised {b} bins, iterative {a}", case)]
        return []
    fl, _ = check_config(case["prop"], case["sched"], case["cfg"])
    return fl
