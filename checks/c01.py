"""
C01 - per-bin statistics equal the windowed-DFT definition on every backend.

Bounded-exhaustive enumeration (engine E1) of the real kernels against the
longdouble reference model mc/ref/estimator.py.

Part A  per-segment transform, K=1, N=L:  every record of SIGMA^L (auto) / every
        pair of SIGMA^L x SIGMA^L (cross), SIGMA={-2,0,1}; windows x frequencies x
        orders x backends.
Part B  segmentation and reduction: N=7 records, every *ordered* start sequence
        of length K<=3 (4) over 0..N-L (repeats, unsorted included), L=1..7.
Part C  (thorough) long segments, tolerance from the O(L^2 u) bound.
CUDA    the kernels in core_cuda.py executed by Numba's CUDA simulator in a
        separate process (NUMBA_ENABLE_CUDASIM=1); kernels launched directly to
        read per-segment outputs, host wrappers for the reduction.
"""
import itertools
import json
import os
import subprocess
import sys

import numpy as np

from mc import framework as fw
from mc import kern, records
from mc.ref import estimator as est
from mc.ref import windows as refwin

PROPERTY = "C01"
WINS = ("rect", "ramp", "hann", "kaiser", "gapneg")
ORDERS = (-1, 0, 1, 2)

META = {
    "level": "model_checking",
    "rule": (
        "full product enumeration, no sampling: part A = every record/pair over the alphabet "
        "{-2,0,1}^L for each (L, window, frequency, order, backend, auto|cross); part B = every ordered "
        "start sequence of length K over 0..N-L for N=7; part C = fixed long records. A case is "
        "non-trivial when some reference statistic exceeds 1e3x its comparison tolerance (so a wrong "
        "implementation could have failed it); cases are distinct by construction of the product."
    ),
    "exhaustive": True,
    "bounds": {
        "quick": {"A": "L=1..4 cross and auto, 5 windows (rect, ramp, Hann, Kaiser, one with interior zeros and negative taps), <=7 frequencies, 4 orders, numba+numpy+cuda-sim",
                  "B": "N=7, L=1..7, K=1..3 ordered start sequences, 3 windows x 3 freqs x 4 orders",
                  "D": "two large bins per backend/mode/order: K=300 x L=4096 and K=33000 x L=40 (K*L > 2^20, K above the NumPy default chunk sizes)"},
        "thorough": {"A": "L=1..5 cross, L=1..7 auto", "B": "N=7, K=1..4; N=9 K<=3",
                     "C": "L in {64,257,1024,4096}"},
    },
    "assumptions": [
        "values outside the alphabet {-2,0,1} and the identifiable/seeded records are not covered",
        "CUDA backend = core_cuda.py kernels executed by numba's CUDA simulator on the CPU; device arithmetic not covered",
        "comparison tolerance = 64*u*(L+4)^2 * 2*sum|win|*max|x| per DFT value (derived bound for a correct recurrence), propagated to products",
        "reference model evaluated in numpy.longdouble",
    ],
}

IN_SIM = os.environ.get("NUMBA_ENABLE_CUDASIM") == "1"


# --------------------------------------------------------------------------
def shards(tier, seed):
    out = []
    LA_cross = range(1, 5) if tier == "quick" else range(1, 6)
    LA_auto = range(1, 5) if tier == "quick" else range(1, 8)
    for backend in ("numba", "numpy"):
        for order in ORDERS:
            for win in WINS:
                for L in LA_cross:
                    out.append({"part": "A", "backend": backend, "cross": True, "L": L,
                                "win": win, "order": order})
                for L in LA_auto:
                    out.append({"part": "A", "backend": backend, "cross": False, "L": L,
                                "win": win, "order": order})
    # CUDA simulator: direct kernel launches
    for order in ORDERS:
        for win in WINS:
            for L in (range(1, 5) if tier == "quick" else range(1, 6)):
                out.append({"part": "A", "backend": "cuda", "cross": True, "L": L, "win": win,
                            "order": order})
                out.append({"part": "A", "backend": "cuda", "cross": False, "L": L, "win": win,
                            "order": order})
    # part B
    recsB = [("id1", "id2"), ("pow", "id1"), ("seed0", "seed1"), ("off", "off2")]
    for backend in ("numba", "numpy"):
        for (ra, rb) in recsB:
            for L in range(1, 8):
                out.append({"part": "B", "backend": backend, "N": 7, "L": L, "rx": ra, "ry": rb,
                            "Kmax": 3 if tier == "quick" else 4, "seed": seed})
    if tier == "thorough":
        for backend in ("numba", "numpy"):
            for L in range(1, 10):
                out.append({"part": "B", "backend": backend, "N": 9, "L": L, "rx": "id3", "ry": "id4",
                            "Kmax": 3, "seed": seed})
    for L in range(1, 8):
        for cross in (True, False):
            out.append({"part": "B", "backend": "cuda", "N": 7, "L": L, "rx": "id1", "ry": "id2",
                        "Kmax": 2 if tier == "quick" else 3, "seed": seed, "only_cross": cross})
    # part D: bins with a very large number of gathered samples K*L (beyond 2^20) and more segments than the NumPy
    # fallbacks' default chunk sizes (8192 / 16384 / 32768)
    for backend in ("numba", "numpy"):
        for shape in ((300, 4096), (33000, 40)):
            for cross in (True, False):
                out.append({"part": "D", "backend": backend, "K": shape[0], "L": shape[1], "cross": cross, "seed": seed})
    # one bin whose gathered samples exceed 2^25 (K*L = 34e6): beyond the block size of any gather-and-multiply fallback
    for cross in (True, False):
        out.append({"part": "D", "backend": "numpy", "K": 853, "L": 40000, "cross": cross, "seed": seed, "orders": [0, 2] if cross else [-1, 1]})
    for backend in ("numba", "numpy", "cuda"):
        out.append({"part": "V", "backend": backend, "seed": seed})
    for cross in (True, False):  # CUDA host wrappers with more than one block of threads (K=300 > 256)
        out.append({"part": "D", "backend": "cuda", "K": 300, "L": 64, "cross": cross, "seed": seed})
    if tier == "thorough":
        for backend in ("numba", "numpy"):
            for L in (64, 257, 1024, 4096):
                out.append({"part": "C", "backend": backend, "L": L, "seed": seed})
        out.append({"part": "C", "backend": "cuda", "L": 257, "seed": seed})
    # expensive shards first for better packing
    def cost(s):
        if s["part"] in ("C", "D", "V"):
            return 1e9
        if s["part"] == "B":
            nseq = sum((s["N"] - s["L"] + 1) ** k for k in range(1, s["Kmax"] + 1))
            return nseq * (90e3 if s["backend"] == "cuda" else (150 * 48 if s["backend"] == "numpy" else 10 * 48))
        n = 3 ** s["L"]
        n = n * n if s["cross"] else n
        return n * 7 * {"numba": 6, "numpy": 150, "cuda": 80}[s["backend"]]
    out.sort(key=lambda s: -cost(s))
    return out


# --------------------------------------------------------------------------
def _via_sim(shard):
    env = dict(os.environ)
    env["NUMBA_ENABLE_CUDASIM"] = "1"
    env["NUMBA_NUM_THREADS"] = "1"
    p = subprocess.run(
        [sys.executable, "-m", "mc.simworker", "checks.c01"],
        input=json.dumps(shard), capture_output=True, text=True, env=env, cwd=fw.ROOT,
        timeout=3600,
    )
    if p.returncode != 0:
        raise RuntimeError(f"cuda-sim worker failed rc={p.returncode}\n{p.stderr[-3000:]}")
    return json.loads(p.stdout.splitlines()[-1])


def run_shard(shard):
    if shard["backend"] == "cuda" and not IN_SIM:
        return _via_sim(shard)
    del kern.MODIFIED[:]
    res = {"A": _part_A, "B": _part_B, "C": _part_C, "D": _part_D, "V": _part_V, "A1": _single}[shard["part"]](shard)
    for kname, which, what in kern.MODIFIED[:2]:
        # the statistics are functions of the record: a kernel that writes into it changes what every later bin sees
        res["failures"].append(fw.fail(f"input-modified/{kname}/{which}", f"kernel {kname} changed its input array '{which}' ({what}); shard {shard}", dict(shard)))
    return res


def replay(case):
    return run_shard(case)["failures"]


# --------------------------------------------------------------------------
def _mkfail(shard, tag, bad, got, ref, tol, case):
    key = f"{tag}/{shard['backend']}/{'csd' if case.get('y') is not None else 'auto'}/order={case['order']}/{'+'.join(bad)}"
    msg = (f"{key}: L={case['L']} win={case['win']} w={case['w']:.6g} starts={case['starts']} "
           f"x={case['x']} y={case.get('y')}: got {got} reference {ref} tol {tol}")
    c = dict(case)
    c.update({"part": "A1", "backend": shard["backend"]})
    return fw.fail(key, msg, c)


def _single(case):
    """One fully specified case (replay): kernel wrapper vs reference."""
    L = int(case["L"])
    win = _window(case["win"], L)
    x = np.ascontiguousarray(case["x"], dtype=np.float64)
    y = None if case.get("y") is None else np.ascontiguousarray(case["y"], dtype=np.float64)
    starts = np.asarray(case["starts"], dtype=np.int64)
    k = kern.get_kernel(case["backend"], y is not None, int(case["order"]))
    kw = {}
    if case.get("chunk") and case["backend"] == "numpy":
        kw["_chunk"] = int(case["chunk"])
    got = k(x, y, starts, L, win, float(case["w"]), **kw)
    ref = est.ref_stats(x, y, starts, L, win, float(case["w"]), int(case["order"]))
    tol = est.tolerances(x, y, starts, L, win, m2ref=ref[4])
    bad = kern.compare(got, ref, tol)
    fails = []
    if bad:
        fails.append(_mkfail(case, "R", bad, got, ref, tol, case))
    return {"evals": 1, "nontrivial": int(kern.nontrivial(ref, tol)), "failures": fails, "samples": []}


def _window(name, L):
    return np.ascontiguousarray(refwin.build(name, L), dtype=np.float64)


def _part_A(shard):
    L, order, cross, backend = shard["L"], shard["order"], shard["cross"], shard["backend"]
    win = _window(shard["win"], L)
    X = np.ascontiguousarray(records.sigma_all(L))
    M = X.shape[0]
    amax = np.max(np.abs(X), axis=1)
    rel, sw = est.tol_scales(L, win)
    starts0 = np.zeros(1, dtype=np.int64)
    fails, samples = [], []
    evals = nontriv = 0
    if backend != "cuda":
        k = kern.get_kernel(backend, cross, order)
    ws = kern.omegas(L)
    if backend in ("cuda", "numpy") and cross and L >= 4:
        ws = [ws[0], ws[1], ws[4 if len(ws) > 4 else -1], ws[-1]]   # cost (simulator / NumPy call overhead): DC, Nyquist, a fractional bin, near-edge; Numba gets all seven
    for w in ws:
        re, im = est.rows_dft(X, win, w, order)
        re = re.astype(np.float64)
        im = im.astype(np.float64)
        if cross:
            ia, ib = np.meshgrid(np.arange(M), np.arange(M), indexing="ij")
            ia, ib = ia.ravel(), ib.ravel()
        else:
            ia = ib = np.arange(M)
        ref = np.stack([re[ia] ** 2 + im[ia] ** 2, re[ib] ** 2 + im[ib] ** 2,
                        re[ia] * re[ib] + im[ia] * im[ib], im[ia] * re[ib] - re[ia] * im[ib],
                        np.zeros(ia.size)], axis=1)
        Sx, Sy = 2 * sw * amax[ia], 2 * sw * amax[ib]
        dX, dY = rel * Sx, rel * Sy
        txy = Sx * dY + Sy * dX + dX * dY + 1e-300
        tol = np.stack([2 * Sx * dX + dX * dX + 1e-300, 2 * Sy * dY + dY * dY + 1e-300, txy, txy,
                        8 * Sx * Sy * txy + 4 * txy * txy + 1e-300], axis=1)
        got = np.empty_like(ref)
        if backend == "cuda":
            try:
                got[:] = _cuda_direct(cross, order, X, ia, ib, L, win, w)
            except (AttributeError, TypeError):
                # CUDA kernels are not reachable under their usual names/signatures: go through the host wrappers
                # (much slower under the simulator: every 41st case)
                kw_ = kern.get_kernel("cuda", cross, order)
                got[:] = ref
                for t in range(0, ia.size, 41):
                    got[t] = kw_(X[ia[t]], X[ib[t]] if cross else None, starts0, L, win, w)
        else:
            for t in range(ia.size):
                got[t] = k(X[ia[t]], X[ib[t]] if cross else None, starts0, L, win, w)
        with np.errstate(invalid="ignore"):
            badmask = ~(np.abs(got - ref) <= tol)
        evals += ia.size
        nontriv += int(np.count_nonzero(np.any(np.abs(ref) > 1e3 * tol, axis=1)))
        if badmask.any():
            rows = np.nonzero(badmask.any(axis=1))[0]
            seen = set()
            for t in rows:
                bad = [kern.STAT[c] for c in range(5) if badmask[t, c]]
                kk = "+".join(bad)
                if kk in seen:
                    continue
                seen.add(kk)
                case = {"L": L, "win": shard["win"], "w": float(w), "order": order, "starts": [0],
                        "x": X[ia[t]].tolist(), "y": X[ib[t]].tolist() if cross else None}
                fails.append(_mkfail(shard, "A", bad, got[t].tolist(), ref[t].tolist(), tol[t].tolist(), case))
        if not samples:
            t = ia.size // 2
            samples.append({"part": "A", "backend": backend, "L": L, "win": shard["win"], "w": float(w),
                            "order": order, "x": X[ia[t]].tolist(), "y": X[ib[t]].tolist() if cross else None,
                            "got": got[t].tolist(), "ref": ref[t].tolist()})
    # CUDA host wrappers on a few K=1 cases (the launches above bypass them)
    if backend == "cuda":
        kw = kern.get_kernel("cuda", cross, order)
        w = ws[-1]
        for t in sorted({0, M // 2, M - 1, (M * M - 1) if cross else M - 1}):
            a, b = (t // M, t % M) if cross else (t, t)
            case = {"part": "A1", "backend": "cuda", "L": L, "win": shard["win"], "w": float(w), "order": order,
                    "starts": [0], "x": X[a].tolist(), "y": X[b].tolist() if cross else None}
            r = _single(case)
            evals += 1
            nontriv += r["nontrivial"]
            fails += r["failures"]
    return {"evals": evals, "nontrivial": nontriv, "failures": fails, "samples": samples}


def _cuda_direct(cross, order, X, ia, ib, L, win, w):
    """Launch the CUDA kernel itself on a concatenated record: one thread per
    case, per-segment outputs are read back directly."""
    from speckit import core, core_cuda

    kind = "win_only" if order == -1 else ("detrend0" if order == 0 else "poly")
    kfn = getattr(core_cuda, f"_stats_{kind}_{'csd' if cross else 'auto'}_cuda_kernel")
    x1 = np.ascontiguousarray(X[ia].ravel())
    x2 = np.ascontiguousarray(X[ib].ravel())
    K = ia.size
    starts = (np.arange(K, dtype=np.int64) * L)
    xx, yy, xyr, xyi = (np.full(K, np.nan) for _ in range(4))
    blocks = (K + 255) // 256
    args = [x1] + ([x2] if cross else []) + [starts, L, win, float(w)]
    if kind == "poly":
        args.append(core._build_Q(L, order))
    kfn[blocks, 256](*args, xx, yy, xyr, xyi)
    return np.stack([xx, yy, xyr, xyi, np.zeros(K)], axis=1)


def _part_B(shard):
    N, L, backend = shard["N"], shard["L"], shard["backend"]
    x = np.ascontiguousarray(records.get(shard["rx"], N, shard["seed"]))
    y = np.ascontiguousarray(records.get(shard["ry"], N, shard["seed"]))
    pos = list(range(0, N - L + 1))
    seqs = []
    for K in range(1, shard["Kmax"] + 1):
        seqs += list(itertools.product(pos, repeat=K))
    wins = ("ramp", "hann", "gapneg") if backend != "cuda" else ("gapneg",)
    ws = [0.0, 0.7, float(2 * np.pi * 1.37 / max(L, 2))] if backend != "cuda" else [0.7]
    fails, samples = [], []
    evals = nontriv = 0
    for cross in ((True, False) if "only_cross" not in shard else (shard["only_cross"],)):
        for order in ORDERS:
            k = kern.get_kernel(backend, cross, order)
            for wn in wins:
                win = _window(wn, L)
                for w in ws:
                    seen = set()
                    for sq in seqs:
                        starts = np.asarray(sq, dtype=np.int64)
                        ref = est.ref_stats(x, y if cross else None, starts, L, win, w, order)
                        tol = est.tolerances(x, y if cross else None, starts, L, win, m2ref=ref[4])
                        chunks = [None]
                        if backend == "numpy" and len(sq) == shard["Kmax"] and wn == "ramp" and w == 0.7:
                            chunks = [None, 1, 2, len(sq) - 1, len(sq), len(sq) + 1]
                        for ch in chunks:
                            kw = {} if ch is None else {"_chunk": ch}
                            got = k(x, y if cross else None, starts, L, win, w, **kw)
                            evals += 1
                            nontriv += int(kern.nontrivial(ref, tol))
                            bad = kern.compare(got, ref, tol)
                            if bad and "+".join(bad) not in seen:
                                seen.add("+".join(bad))
                                case = {"L": L, "win": wn, "w": float(w), "order": order, "starts": list(sq),
                                        "x": x.tolist(), "y": y.tolist() if cross else None, "chunk": ch}
                                fails.append(_mkfail(shard, "B", bad, got, ref, tol, case))
                    if not samples:
                        samples.append({"part": "B", "backend": backend, "L": L, "starts": list(seqs[-1]),
                                        "win": wn, "w": w, "order": order, "got": list(got), "ref": list(ref)})
    return {"evals": evals, "nontrivial": nontriv, "failures": fails, "samples": samples}


def _part_C(shard):
    L, backend = shard["L"], shard["backend"]
    N = 3 * L + 5
    fails, samples = [], []
    evals = nontriv = 0
    recs = [("id1", "id2"), ("id3", "chirp"), ("seed0", "seed1")]
    ws = [0.0, np.pi, 2 * np.pi * 0.5 / L, np.pi - 2 * np.pi * 0.5 / L, 2 * np.pi * 3.37 / L, 1.1]
    startsets = [[0], [0, L // 2 + 1, N - L], [N - L, 3, 3, 2 * L]]
    for ra, rb in recs:
        x = np.ascontiguousarray(records.get(ra, N, shard["seed"]))
        y = np.ascontiguousarray(records.get(rb, N, shard["seed"]))
        for cross in (True, False):
            for order in ORDERS:
                k = kern.get_kernel(backend, cross, order)
                for wn in ("hann", "kaiser", "gapneg"):
                    win = _window(wn, L)
                    for w in ws:
                        for sq in startsets:
                            starts = np.asarray(sq, dtype=np.int64)
                            ref = est.ref_stats(x, y if cross else None, starts, L, win, w, order)
                            tol = est.tolerances(x, y if cross else None, starts, L, win, m2ref=ref[4])
                            got = k(x, y if cross else None, starts, L, win, float(w))
                            evals += 1
                            nontriv += int(kern.nontrivial(ref, tol))
                            bad = kern.compare(got, ref, tol)
                            if bad:
                                case = {"L": L, "win": wn, "w": float(w), "order": order, "starts": list(sq),
                                        "x": x.tolist(), "y": y.tolist() if cross else None}
                                fails.append(_mkfail(shard, "C", bad, got, ref, tol, case))
        if not samples:
            samples.append({"part": "C", "backend": backend, "L": L, "N": N, "records": [ra, rb]})
    return {"evals": evals, "nontrivial": nontriv, "failures": fails, "samples": samples}


def _part_D(shard):
    """Large bins: K*L > 2^20 gathered samples; K above every default chunk size of the NumPy fallbacks."""
    K, L, backend, cross = shard["K"], shard["L"], shard["backend"], shard["cross"]
    step = 7 if K < 1000 else 1
    N = L + step * (K - 1) + 3
    x = np.ascontiguousarray(records.id1(N) + 0.3 * records.id3(N))
    y = np.ascontiguousarray(records.id2(N))
    starts = np.ascontiguousarray((np.arange(K, dtype=np.int64) * step)[::-1])  # descending: unsorted starts
    if K * L >= (1 << 25):
        # long segments: put a line at the analysis frequency so that the estimates stand far above the rounding allowance
        n_ = np.arange(N, dtype=np.float64)
        w0 = 2 * np.pi * 12345.3 / L
        x = np.ascontiguousarray(x + np.cos(w0 * n_))
        y = np.ascontiguousarray(y + 0.5 * np.sin(w0 * n_ + 0.4))
    fails, samples = [], []
    evals = nontriv = 0
    for order in shard.get("orders", ORDERS):
        k = kern.get_kernel(backend, cross, order)
        for wn, w in (("hann", 2 * np.pi * 3.37 / L), ("gapneg", 0.9)) if K * L < (1 << 25) else (("hann", 2 * np.pi * 12345.3 / L),):
            win = _window(wn, L)
            ref = est.ref_stats(x, y if cross else None, starts, L, win, w, order)
            tol = est.tolerances(x, y if cross else None, starts, L, win, m2ref=ref[4], omega=(w if L >= 4096 else None))
            got = k(x, y if cross else None, starts, L, win, float(w))
            evals += 1
            nontriv += int(kern.nontrivial(ref, tol))
            bad = kern.compare(got, ref, tol)
            if bad:
                key = f"D/{backend}/{'csd' if cross else 'auto'}/order={order}/{'+'.join(bad)}"
                fails.append(fw.fail(key, f"{key}: K={K} segments of L={L} (K*L={K * L}) win={wn} w={w:.5g}: got {got} reference {ref} tol {tol}", dict(shard)))
    samples.append({"part": "D", "backend": backend, "K": K, "L": L, "KL": K * L})
    return {"evals": evals, "nontrivial": nontriv, "failures": fails, "samples": samples}


def _part_V(shard):
    """The two channels are overlapping / strided / reversed views of ONE buffer (a delayed copy built as buf[d:], buf[:-d]):
    admissible records like any other."""
    backend = shard["backend"]
    buf = records.id1(40) + 0.2 * records.id3(40)
    views = {"delay1": (buf[1:33], buf[0:32]), "delay5": (buf[5:37], buf[0:32]), "same": (buf[3:35], buf[3:35]),
             "strided": (buf[0:64:2][:16], buf[1:64:2][:16]), "reversed": (buf[0:32], buf[0:32][::-1])}
    fails = []
    evals = nontriv = 0
    for vn, (xv, yv) in views.items():
        N = xv.shape[0]
        for order, L in itertools.product(ORDERS, (4, 9)):
            k = kern.get_kernel(backend, True, order)
            win = _window("ramp", L)
            starts = np.array([0, 3, N - L], dtype=np.int64)
            ref = est.ref_stats(np.array(xv), np.array(yv), starts, L, win, 0.7, order)
            tol = est.tolerances(np.array(xv), np.array(yv), starts, L, win, m2ref=ref[4])
            try:
                got = k(xv, yv, starts, L, win, 0.7)
            except Exception as e:  # noqa: BLE001
                got = None
                err = f"{type(e).__name__}: {e}"
            evals += 1
            nontriv += int(kern.nontrivial(ref, tol))
            bad = ["raises"] if got is None else kern.compare(got, ref, tol)
            if bad:
                key = f"V/{backend}/{vn}/order={order}/{'+'.join(bad)}"
                fails.append(fw.fail(key, f"{key}: channels are views of one buffer ({vn}), L={L}: got {got if got is not None else err} reference {ref}", dict(shard)))
    return {"evals": evals, "nontrivial": nontriv, "failures": fails, "samples": [{"part": "V", "backend": backend, "views": list(views)}]}
