"""
C15 - optimal multi-input subtraction yields a physical, consistent residual.

N=600 records, plan Lmin=32, Jdes=20, Kdes=8 (bins with K from 1 to ~36).
q in 1..3 (quick) / 1..4 (thorough); outputs: exact static combinations with all
coefficient vectors over {-1,2,0.5}^q, combination + independent record, q=1
delayed / sign-flipped coupling; all invertible 2x2 mixing matrices over
{-1,0,1,2}, a fixed set for q>=3, all permutations.  Oracles on bins with K>q.
"""
import itertools
import logging

import numpy as np

from mc import ana, framework as fw, records

PROPERTY = "C15"
META = {
    "level": "model_checking",
    "rule": ("full product q x coefficient vectors x output kind x permutations x mixing matrices (all invertible 2x2 over {-1,0,1,2}; fixed "
             "set of 12 for q>=3) x solver; oracle on every bin with K>q; non-trivial: bins with K>q and output power above rounding; "
             "singular mixing candidates are counted and skipped"),
    "exhaustive": True,
    "bounds": {"quick": "q in 1..3; N=600; coefficients {-1,2,.5}^q; delays {0,1,3}; analytic solver for q<=2 (+ one q=3 case), numeric for all",
               "thorough": "q in 1..4, analytic for all q<=3 and one q=4 case"},
    "assumptions": ["power-level tolerances: residual power compared to 1e-7*S00 (rounding times the conditioning of the input spectral matrix on bins with K>q)"],
}
KW = dict(Lmin=32, Jdes=20, Kdes=8, olap=0.5, win="hann", scheduler="ltf", order=0)
N = 600
FS = 2.0
TOLP = 1e-7     # residual-power tolerance relative to S00
TOLZ = 1e-4     # asd <= TOLZ*sqrt(S00) for exact combinations


def inputs(q, seed):
    names = ["id1", "id2", "id3", "id4"]
    return [records.get(nm, N, seed) for nm in names[:q]]


def shards(tier, seed):
    out = []
    qs = (1, 2, 3) if tier == "quick" else (1, 2, 3, 4)
    for q in qs:
        coefs = list(itertools.product((-1.0, 2.0, 0.5), repeat=q))
        for ci, a in enumerate(coefs):
            out.append({"part": "static", "q": q, "a": list(a), "seed": seed,
                        "analytic": (q <= 2) or (tier == "thorough" and q == 3) or ci == 0})
        out.append({"part": "mix", "q": q, "seed": seed})
    for d in (0, 1, 3):
        for g in (1.0, -1.0):
            out.append({"part": "siso", "d": d, "g": g, "seed": seed})
    for q in (2, 3):
        for variant in range(4):
            out.append({"part": "delayed", "q": q, "variant": variant, "seed": seed, "analytic": q == 2 or (tier == "thorough")})
    out.append({"part": "units", "seed": seed})
    for q in (1, 2, 3):
        out.append({"part": "dtypes", "q": q, "seed": seed})
    out.sort(key=lambda s: -(s.get("q", 1) ** 3 * (4 if s.get("analytic") else 1)))
    return out


def run_shard(shard):
    logging.disable(logging.CRITICAL)
    return {"static": _static, "mix": _mix, "siso": _siso, "delayed": _delayed, "units": _units, "dtypes": _dtypes}[shard["part"]](shard)


def replay(case):
    return run_shard(case)["failures"]


def plan_K():
    an = ana.make_analyzer(np.zeros(N), FS, **KW)
    p = an.plan()
    return np.asarray(p["K"]), np.asarray(p["f"])


def S00(y):
    from speckit import compute_spectrum
    return np.asarray(compute_spectrum(y, FS, **KW).Gxx)


def solvers():
    from speckit import systems as S
    return S.MISO_numeric_optimal_spectral_analysis, S.MISO_analytic_optimal_spectral_analysis, S.SISO_optimal_spectral_analysis


class Acc:
    def __init__(self, shard):
        self.shard = shard
        self.out = {"evals": 0, "nontrivial": 0, "failures": [], "samples": [],
                    "extra": {"max_resid_over_S00_exact": 0.0, "max_power_diff_over_S00": 0.0, "singular_skipped": 0}}
        self.seen = set()

    def add(self, tag, msg):
        if tag not in self.seen:
            self.seen.add(tag)
            self.out["failures"].append(fw.fail(tag, f"{tag}: {msg} :: {self.shard}", dict(self.shard)))

    def physical(self, tag, asd, s00, K, q):
        """0 <= asd <= sqrt(S00) on bins with K > q."""
        m = K > q
        self.out["evals"] += int(m.sum())
        self.out["nontrivial"] += int(np.count_nonzero(m & (s00 > 0)))
        a = np.asarray(asd)
        if not np.all(np.isfinite(a[m])):
            self.add(f"{tag}/finite", f"residual not finite: {a[m].tolist()}")
            return
        bad = m & ~((a >= 0) & (a * a <= s00 * (1 + 1e-9) + TOLP * s00))
        if bad.any():
            j = int(np.nonzero(bad)[0][0])
            self.add(f"{tag}/range", f"bin {j} (K={int(K[j])}): residual asd {a[j]!r} not in [0, sqrt(S00)={np.sqrt(s00[j])!r}]")

    def equal(self, tag, a1, a2, s00, K, q, what):
        m = K > q
        d = np.abs(np.asarray(a1) ** 2 - np.asarray(a2) ** 2) / np.maximum(s00, 1e-300)
        self.out["evals"] += int(m.sum())
        if m.any():
            self.out["extra"]["max_power_diff_over_S00"] = max(self.out["extra"]["max_power_diff_over_S00"], float(np.max(d[m])))
        bad = m & ~(d <= TOLP)
        if bad.any():
            j = int(np.nonzero(bad)[0][0])
            self.add(tag, f"{what}: bin {j} (K={int(K[j])}): {np.asarray(a1)[j]!r} vs {np.asarray(a2)[j]!r} (S00={s00[j]!r})")


def _static(shard):
    q, a, seed = shard["q"], np.asarray(shard["a"]), shard["seed"]
    num, anl, siso = solvers()
    U = inputs(q, seed)
    K, f = plan_K()
    acc = Acc(shard)
    indep = records.get("chirp", N, seed) * 0.7
    for kind in ("exact", "plus"):
        y = sum(ai * ui for ai, ui in zip(a, U))
        if kind == "plus":
            y = y + indep
        s00 = S00(y)
        f1, r_num = num(U, y, FS, **KW)
        acc.physical(f"static/{kind}/numeric/q={q}", r_num, s00, K, q)
        if kind == "exact":
            m = K > q
            ratio = np.asarray(r_num)[m] ** 2 / s00[m]
            acc.out["extra"]["max_resid_over_S00_exact"] = max(acc.out["extra"]["max_resid_over_S00_exact"], float(np.max(ratio)))
            if not np.all(np.asarray(r_num)[m] <= TOLZ * np.sqrt(s00[m])):
                j = int(np.nonzero(m)[0][int(np.argmax(ratio))])
                acc.add(f"static/exact/nonzero/q={q}", f"output is an exact combination {a.tolist()} of the inputs but the residual at bin {j} is {np.asarray(r_num)[j]!r} (sqrt(S00)={np.sqrt(s00[j])!r})")
        if shard.get("analytic"):
            f2, r_an = anl(U, y, FS, **KW)
            acc.physical(f"static/{kind}/analytic/q={q}", r_an, s00, K, q)
            acc.equal(f"static/{kind}/analytic-vs-numeric/q={q}", r_an, r_num, s00, K, q, "analytic vs numeric solver")
        # permutations of the inputs
        for perm in itertools.permutations(range(q)):
            if perm == tuple(range(q)):
                continue
            _, r_p = num([U[i] for i in perm], y, FS, **KW)
            acc.equal(f"static/{kind}/permutation/q={q}", r_p, r_num, s00, K, q, f"inputs reordered {perm}")
        if q == 1:
            _, r_s = siso(U[0], y, FS, **KW)
            acc.equal(f"static/{kind}/siso-vs-miso", r_s, r_num, s00, K, q, "SISO vs MISO numeric")
        if not acc.out["samples"]:
            acc.out["samples"].append({"q": q, "a": a.tolist(), "kind": kind, "resid_asd": np.asarray(r_num)[-3:].tolist()})
    return acc.out


def mixing_matrices(q):
    if q == 1:
        return [np.array([[v]]) for v in (-1.0, 2.0)], 0
    if q == 2:
        mats, sing = [], 0
        for e in itertools.product((-1.0, 0.0, 1.0, 2.0), repeat=4):
            M = np.array(e).reshape(2, 2)
            if abs(np.linalg.det(M)) < 0.5:
                sing += 1
                continue
            mats.append(M)
        return mats, sing
    rng_vals = (-1.0, 0.0, 1.0, 2.0)
    mats, sing = [], 0
    k = 0
    # deterministic fixed set: the first 12 invertible matrices met when stepping through the lexicographic
    # enumeration of {-1,0,1,2}^(q*q) with a fixed stride
    allm = itertools.product(rng_vals, repeat=q * q)
    stride = 7919 if q == 3 else 104729
    for i, e in enumerate(allm):
        if i % stride:
            continue
        M = np.array(e).reshape(q, q)
        if abs(np.linalg.det(M)) < 0.5:
            sing += 1
            continue
        mats.append(M)
        if len(mats) == 12:
            break
    return mats, sing


def _mix(shard):
    q, seed = shard["q"], shard["seed"]
    num, anl, siso = solvers()
    U = inputs(q, seed)
    K, f = plan_K()
    acc = Acc(shard)
    y = sum((0.5 + i) * u for i, u in enumerate(U)) + records.get("chirp", N, seed) * 0.7
    s00 = S00(y)
    _, base = num(U, y, FS, **KW)
    mats, sing = mixing_matrices(q)
    acc.out["extra"]["singular_skipped"] = sing
    for M in mats:
        V = [sum(M[i, j] * U[j] for j in range(q)) for i in range(q)]
        _, r = num(V, y, FS, **KW)
        acc.physical(f"mix/numeric/q={q}", r, s00, K, q)
        acc.equal(f"mix/remix/q={q}", r, base, s00, K, q, f"inputs re-mixed by {M.tolist()}")
    acc.out["samples"].append({"q": q, "mixing matrices": len(mats), "example": mats[len(mats) // 2].tolist()})
    return acc.out


def _siso(shard):
    d, g, seed = shard["d"], shard["g"], shard["seed"]
    num, anl, siso = solvers()
    from speckit import compute_spectrum
    u = records.get("id1", N, seed)
    K, f = plan_K()
    acc = Acc(shard)
    delayed = np.concatenate([np.full(d, u[0]), u[:N - d]]) if d else u.copy()
    for noise in (0.0, 0.5):
        y = g * delayed + noise * records.get("id3", N, seed)
        s00 = S00(y)
        _, r_n = num([u], y, FS, **KW)
        _, r_a = anl([u], y, FS, **KW)
        _, r_s = siso(u, y, FS, **KW)
        res = compute_spectrum(np.stack([u, y]), FS, **KW)
        want = np.sqrt(np.maximum(np.asarray(res.Gyy) * (1 - np.asarray(res.coh)), 0.0))
        for nm, r in (("numeric", r_n), ("analytic", r_a), ("siso", r_s)):
            acc.physical(f"siso/{nm}", r, s00, K, 1)
            acc.equal(f"siso/{nm}-vs-Gyy(1-coh)", r, want, s00, K, 1, f"{nm} residual vs sqrt(Gyy(1-coh)) for delay {d}, gain {g}, noise {noise}")
    acc.out["samples"].append({"delay": d, "gain": g, "resid": np.asarray(r_s)[-3:].tolist()})
    return acc.out


def ref_residual(U, y):
    """Reference residual power per bin from the library's own spectral estimates (whose correctness is C05/C09):
    S00 - Re(S^H T^-1 S) with T_ij = Gxy(u_i,u_j) = <U_i conj U_j>, S_i = Gxy(u_i,y)."""
    from speckit import compute_spectrum
    q = len(U)
    s00 = S00(y)
    nf = len(s00)
    T = np.zeros((q, q, nf), dtype=complex)
    S = np.zeros((q, nf), dtype=complex)
    for i in range(q):
        T[i, i] = compute_spectrum(U[i], FS, **KW).Gxx
        S[i] = compute_spectrum(np.stack([U[i], y]), FS, **KW).Gxy
        for j in range(i + 1, q):
            g = compute_spectrum(np.stack([U[i], U[j]]), FS, **KW).Gxy
            T[i, j] = g
            T[j, i] = np.conj(g)
    out = np.zeros(nf)
    cond = np.zeros(nf)
    for k in range(nf):
        Tk, Sk = T[:, :, k], S[:, k]
        cond[k] = np.linalg.cond(Tk)
        try:
            out[k] = s00[k] - np.real(np.conj(Sk) @ np.linalg.solve(Tk, Sk))
        except np.linalg.LinAlgError:
            out[k] = np.nan
    return out, s00, cond


def delay(u, d):
    return np.concatenate([np.full(d, u[0]), u[:len(u) - d]]) if d else u.copy()


def _delayed(shard):
    """q >= 2 inputs that are mutually correlated with a relative delay, output coupled with different delays/phases."""
    q, v, seed = shard["q"], shard["variant"], shard["seed"]
    num, anl, siso = solvers()
    K, f = plan_K()
    acc = Acc(shard)
    base = inputs(q, seed)
    # make the inputs mutually correlated with a relative delay
    U = [base[0]] + [base[i] + (0.6 + 0.1 * i) * delay(base[0], 1 + i + v) for i in range(1, q)]
    dl = [(0, 2, 1), (3, 0, 2), (1, 1, 4), (2, 5, 0)][v]
    y = sum((1.0 + 0.5 * i) * (-1) ** i * delay(U[i], dl[i]) for i in range(q)) + 0.3 * records.get("chirp", N, seed)
    ref, s00, cond = ref_residual(U, y)
    m = (K > q) & np.isfinite(ref) & (cond < 1e6)
    results = {"numeric": num(U, y, FS, **KW)[1]}
    if shard.get("analytic"):
        results["analytic"] = anl(U, y, FS, **KW)[1]
    for nm, r in results.items():
        acc.physical(f"delayed/{nm}/q={q}", r, s00, K, q)
        d = np.abs(np.asarray(r) ** 2 - np.maximum(ref, 0.0)) / np.maximum(s00, 1e-300)
        acc.out["evals"] += int(m.sum())
        acc.out["nontrivial"] += int(m.sum())
        bad = m & ~(d <= 1e-7 + 1e-13 * cond)
        if bad.any():
            j = int(np.nonzero(bad)[0][0])
            acc.add(f"delayed/{nm}-vs-reference/q={q}", f"bin {j} (K={int(K[j])}): {nm} residual^2={np.asarray(r)[j] ** 2!r} but S00 - S^H T^-1 S = {ref[j]!r} (S00={s00[j]!r})")
    if len(results) == 2:
        acc.equal(f"delayed/analytic-vs-numeric/q={q}", results["analytic"], results["numeric"], s00, K, q, "analytic vs numeric solver")
    for perm in itertools.permutations(range(q)):
        if perm != tuple(range(q)):
            acc.equal(f"delayed/permutation/q={q}", num([U[i] for i in perm], y, FS, **KW)[1], results["numeric"], s00, K, q, f"inputs reordered {perm}")
    acc.out["samples"].append({"q": q, "variant": v, "delays": list(dl[:q]), "resid": np.asarray(results["numeric"])[-3:].tolist()})
    return acc.out


def _dtypes(shard):
    """The same numbers handed over in other containers / dtypes (integer ADC counts, float32, lists, read-only arrays) give the
    same residual as float64 arrays: exact combination (zero residual), plus an independent non-integer part, q = 1 also vs SISO."""
    q, seed = shard["q"], shard["seed"]
    num, anl, siso = solvers()
    K, f = plan_K()
    acc = Acc(shard)
    Uf = [np.round(1000.0 * u) for u in inputs(q, seed)]          # integer-valued records
    a = [0.37, -1.25, 2.5][:q]
    for kind in ("exact", "plus"):
        y = sum(ai * ui for ai, ui in zip(a, Uf)) + (0.0 if kind == "exact" else 700.0 * records.get("chirp", N, seed))
        s00 = S00(y)
        _, r_ref = num([u.copy() for u in Uf], y.copy(), FS, **KW)
        forms = {"int64": [u.astype(np.int64) for u in Uf], "int32": [u.astype(np.int32) for u in Uf], "float32": [u.astype(np.float32) for u in Uf],
                 "list": [u.tolist() for u in Uf], "mixed": [u.astype(np.int64) if i % 2 == 0 else u.copy() for i, u in enumerate(Uf)]}
        ro = [u.copy() for u in Uf]
        for u in ro:
            u.setflags(write=False)
        forms["readonly"] = ro
        for name, U in forms.items():
            for sname, solver in (("numeric", num), ("analytic", anl)) if q <= 2 else (("numeric", num),):
                try:
                    _, r = solver(U, y.copy(), FS, **KW)
                except Exception as e:  # noqa: BLE001
                    acc.out["evals"] += 1
                    acc.add(f"dtypes/raises/{name}/{sname}", f"inputs given as {name} raised {type(e).__name__}: {e}")
                    continue
                acc.equal(f"dtypes/{kind}/{name}/{sname}/q={q}", r, r_ref, s00, K, q, f"inputs given as {name} ({sname} solver) vs the same numbers as float64 arrays")
            if q == 1:
                try:
                    _, r = siso(U[0], y.copy(), FS, **KW)
                    acc.equal(f"dtypes/{kind}/{name}/siso", r, r_ref, s00, K, q, f"SISO with the input given as {name} vs MISO on float64")
                except Exception as e:  # noqa: BLE001
                    acc.add(f"dtypes/raises/{name}/siso", f"input given as {name} raised {type(e).__name__}: {e}")
    acc.out["samples"].append({"dtypes": ["int64", "int32", "float32", "list", "mixed", "readonly"], "q": q})
    return acc.out


def _units(shard):
    """Invertible re-mixing that is a change of units / nearly collinear inputs: the residual must not change, and an
    exact combination must still leave zero residual.  Power tolerance 1e-4*S00 (the linear systems have condition
    numbers up to ~1e10; rounding of a correct solver stays below 1e-6*S00)."""
    seed = shard["seed"]
    num, anl, siso = solvers()
    K, f = plan_K()
    acc = Acc(shard)
    U = inputs(2, seed)
    mixes = [np.diag([1.0, 3e4]), np.diag([3e-5, 1.0]), np.array([[1.0, 1.0], [1.0, 1.0 + 1e-4]]), np.array([[1e4, 1.0], [0.0, 1.0]]),
             1e-9 * np.eye(2), 1e9 * np.eye(2), np.diag([1e-9, 2e-9])]
    for kind in ("exact", "plus"):
        y = 2.0 * U[0] - 0.5 * U[1] + (0.7 * records.get("chirp", N, seed) if kind == "plus" else 0.0)
        s00 = S00(y)
        base = np.asarray(num(U, y, FS, **KW)[1])
        m = K > 2
        for M in mixes:
            V = [M[i, 0] * U[0] + M[i, 1] * U[1] for i in range(2)]
            # rounding of any correct solver grows with the conditioning of the (re-mixed) input spectral matrix
            cond = ref_residual(V, y)[2]
            tolM = np.maximum(1e-4, 1e4 * 2.2e-16 * cond)
            for nm, solver in (("numeric", num), ("analytic", anl)):
                r = np.asarray(solver(V, y, FS, **KW)[1])
                d = np.abs(r ** 2 - base ** 2) / np.maximum(s00, 1e-300)
                acc.out["evals"] += int(m.sum())
                acc.out["nontrivial"] += int(m.sum())
                if not np.all(d[m] <= tolM[m]):
                    j = int(np.nonzero(m)[0][int(np.argmax(d[m]))])
                    acc.add(f"units/{kind}/{nm}", f"inputs re-mixed by {M.tolist()}: residual at bin {j} = {r[j]!r} but {base[j]!r} for the original inputs (sqrt(S00)={np.sqrt(s00[j])!r})")
    acc.out["samples"].append({"units": [M.tolist() for M in mixes]})
    return acc.out
