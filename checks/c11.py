"""
C11 - empirical error estimates are the segment scatter in spectral units.

Analyzer lattice: per bin, XY_M2 equals the population variance of the
per-segment cross products computed by the reference model; XY_emp_var = M2/K,
XY_emp_dev = sqrt, Gxx_emp_dev / Gxy_emp_dev = sqrt(var)*2/(fs*sum w^2), the
inapplicable one None; zero for single-segment bins; never negative.  Constructed
results over an (M2, navg, S2, fs) grid.  The Gaussian-agreement sentence is
statistical and is not claimed (DESIGN.md section 6).
"""
import itertools

import numpy as np

from mc import ana, framework as fw

PROPERTY = "C11"
META = {
    "level": "model_checking",
    "rule": ("full product N x scheduler x window x order x backend x olap x mode x record; oracle on every bin; plus the full grid "
             "of constructed results; non-trivial: bins with K>=2 whose reference scatter exceeds 1e3x its tolerance"),
    "exhaustive": True,
    "bounds": {"quick": "kernel level: N=9, L in {2,4,6}, every ordered start sequence of length 2..4, low- and high-scatter records, NumPy chunk sizes 1,2,3,default; analyzer level: N in {16,33,64}; 4 schedulers; windows hann,kaiser200,custom; orders -1..2; numba+numpy; olap {0,.5,.8}; (Jdes,Kdes) in {(10,4),(30,2),(30,8)}; auto+cross; records id1/id2, seeded; constructed: M2 in {0,1e-300,1e-40,1e-9,2.5,1e40,1e300}, navg in {1,2,7,1000}, S2 in {.3,40}, fs in {1,1000,3e-8,4e7}",
               "thorough": "adds N in {100,257}"},
    "assumptions": ["statistical clause (agreement with analytic deviations for Gaussian noise) not decided by enumeration, not claimed"],
}


def shards(tier, seed):
    out = [{"part": "constructed"}]
    for backend in ("numba", "numpy"):
        for order in (-1, 0, 1, 2):
            out.append({"part": "kernel", "backend": backend, "order": order, "seed": seed})
    Ns = [16, 33, 64] + ([100, 257] if tier == "thorough" else [])
    for N, sch, backend, win in itertools.product(Ns, ("lpsd", "ltf", "vectorized_ltf", "new_ltf"), ("numba", "numpy"), ("hann", "kaiser200", "custom")):
        out.append({"part": "ana", "N": N, "sched": sch, "backend": backend, "win": win, "seed": seed})
    out.sort(key=lambda s: -s.get("N", 0))
    return out


def run_shard(shard):
    ana.quiet()
    if shard["part"] == "constructed":
        return _constructed()
    if shard["part"] == "kernel":
        return _kernel(shard)
    if "case" in shard:
        return _one(shard["case"])
    out = {"evals": 0, "nontrivial": 0, "failures": [], "samples": [], "extra": {"single_segment_bins": 0}}
    seen = set()
    for order, olap, mode, (rx, ry), (J, K) in itertools.product((-1, 0, 1, 2), (0.0, 0.5, 0.8), ("auto", "cross"),
                                                                 (("id1", "id2"), ("seed0", "seed1"), ("off", "off2")), ((10, 4), (30, 2), (30, 8))):
        c = {k: shard[k] for k in ("N", "sched", "backend", "win", "seed")}
        c.update(order=order, olap=olap, mode=mode, rx=rx, ry=ry, Jdes=J, Kdes=K)
        r = _one(c)
        out["evals"] += r["evals"]
        out["nontrivial"] += r["nontrivial"]
        out["extra"]["single_segment_bins"] += r["extra"]["single_segment_bins"]
        for f_ in r["failures"]:
            if f_["key"] not in seen:
                seen.add(f_["key"])
                out["failures"].append(f_)
        if not out["samples"]:
            out["samples"] = r["samples"]
    return out


def replay(case):
    if case.get("part") == "constructed":
        return _constructed()["failures"]
    return run_shard({"part": "ana", "case": case})["failures"]


def _kernel(shard):
    """Scatter at kernel level: every ordered start sequence of length 2..4 on a 9-sample record, low- and high-scatter
    records, and (NumPy fallbacks) every chunk size that splits the segments differently."""
    from mc import kern, records
    from mc.ref import estimator as est
    from mc.ref import windows as refwin

    backend, order = shard["backend"], shard["order"]
    N = 9
    out = {"evals": 0, "nontrivial": 0, "failures": [], "samples": [], "extra": {"single_segment_bins": 0}}
    seen = set()
    for (rx, ry), cross, L in itertools.product((("id1", "id2"), ("off", "off2"), ("pow", "id3")), (True, False), (2, 4, 6)):
        x, y = records.get(rx, N, shard["seed"]), records.get(ry, N, shard["seed"])
        k = kern.get_kernel(backend, cross, order)
        win = np.ascontiguousarray(refwin.build("ramp", L))
        pos = range(0, N - L + 1)
        for K in (2, 3, 4):
            for sq in itertools.product(pos, repeat=K):
                starts = np.asarray(sq, dtype=np.int64)
                ref = est.ref_stats(x, y if cross else None, starts, L, win, 0.7, order)
                tol = est.tolerances(x, y if cross else None, starts, L, win, m2ref=ref[4])
                for ch in ([None] if backend != "numpy" else [None, 1, 2, 3]):
                    got = k(x, y if cross else None, starts, L, win, 0.7, **({} if ch is None else {"_chunk": ch}))
                    out["evals"] += 1
                    out["nontrivial"] += int(ref[4] > 1e3 * tol[4])
                    if not (got[4] >= 0 and abs(got[4] - ref[4]) <= tol[4]):
                        key = f"kernel/M2/{backend}/{'csd' if cross else 'auto'}/order={order}/chunk={ch}"
                        if key not in seen:
                            seen.add(key)
                            out["failures"].append(fw.fail(key, f"{key}: starts={list(sq)} L={L} records {rx}/{ry}: M2={got[4]!r}, population variance of the per-segment products {ref[4]!r} (tol {tol[4]:.3e})", dict(shard)))
    out["samples"].append({"kernel": backend, "order": order, "N": N, "K": [2, 3, 4]})
    return out


def _one(c):
    fs = 2.0
    x, y = ana.data_for(c["mode"], c["N"], c["rx"], c["ry"], c["seed"])
    wkw, wref = ana.win_spec(c["win"])
    out = {"evals": 0, "nontrivial": 0, "failures": [], "samples": [], "extra": {"single_segment_bins": 0}}

    def add(tag, msg):
        key = f"{tag}/{c['backend']}/{c['mode']}/order={c['order']}"
        if not any(f_["key"] == key for f_ in out["failures"]):
            out["failures"].append(fw.fail(key, f"{key}: {msg} :: {c}", c))

    r = ana.make_analyzer(ana.as_input(x, y), fs, olap=c["olap"], Jdes=c.get("Jdes", 10), Kdes=c.get("Kdes", 4), order=c["order"], scheduler=c["sched"],
                          backend=c["backend"], **wkw).compute()
    pf = ana.plan_fields(r)
    M2 = np.asarray(r.XY_M2)
    var = np.asarray(r.XY_emp_var)
    dev = np.asarray(r.XY_emp_dev)
    gx, gxy = r.Gxx_emp_dev, r.Gxy_emp_dev
    if c["mode"] == "auto":
        if gxy is not None:
            add("none", "Gxy_emp_dev must be None for an auto-spectrum")
        g = gx
    else:
        if gx is not None:
            add("none", "Gxx_emp_dev must be None for a cross-spectrum")
        g = gxy
    if g is None:
        add("none", "the applicable empirical deviation is None")
        return out
    g = np.asarray(g)
    for j in range(len(pf["f"])):
        L = int(pf["L"][j])
        K = len(pf["D"][j])
        wv = wref(L)
        ref, tol = ana.ref_bin(x, y, fs, pf["f"][j], L, pf["D"][j], wv, c["order"])
        m2r, t = ref[4], tol[4]
        out["evals"] += 1
        if K == 1:
            out["extra"]["single_segment_bins"] += 1
            if M2[j] != 0 or var[j] != 0 or g[j] != 0:
                add("single", f"bin {j}: single segment but M2={M2[j]!r} var={var[j]!r} dev={g[j]!r}")
            continue
        if m2r > 1e3 * t:
            out["nontrivial"] += 1
        if not (M2[j] >= 0 and var[j] >= 0 and dev[j] >= 0 and g[j] >= 0):
            add("negative", f"bin {j}: negative scatter M2={M2[j]!r} var={var[j]!r}")
        if not (abs(M2[j] - m2r) <= t):
            add("M2", f"bin {j} (L={L}, K={K}): XY_M2={M2[j]!r} reference population variance {m2r!r} (tol {t:.2e})")
            continue
        rel = 1e-12
        if not (abs(var[j] - M2[j] / K) <= rel * abs(M2[j] / K) + 1e-300):
            add("var", f"bin {j}: XY_emp_var={var[j]!r} != M2/K={M2[j] / K!r} (K={K})")
        if not (abs(dev[j] - np.sqrt(M2[j] / K)) <= rel * dev[j] + 1e-300):
            add("dev", f"bin {j}: XY_emp_dev={dev[j]!r} != sqrt(M2/K)={np.sqrt(M2[j] / K)!r}")
        S2 = float(np.sum(wv * wv))
        want = np.sqrt(M2[j] / K) * 2.0 / (fs * S2)
        if not (abs(g[j] - want) <= 1e-11 * abs(want) + 1e-300):
            add("units", f"bin {j}: G emp dev={g[j]!r} != sqrt(M2/K)*2/(fs*sum w^2)={want!r}")
    out["samples"].append({"case": c, "XY_M2": M2.tolist()[:4], "K": [len(d) for d in pf["D"]][:4]})
    return out


def _constructed():
    from checks.c10 import build_result

    out = {"evals": 0, "nontrivial": 0, "failures": [], "samples": [], "extra": {"single_segment_bins": 0}}
    M2S = (0.0, 1e-9, 2.5, 1e-300, 1e-40, 1e40, 1e300)   # scatter in ordinary and in extreme units
    for fs, S2, iscsd, plotted in itertools.product((1.0, 1000.0, 3e-8, 4e7), (0.3, 40.0), (True, False), (False, True)):
        pts = [(0.5, n, 1.0, 2.0, 1.0) for n in (1, 2, 7, 1000) for _ in M2S]
        m2 = np.array([m for _ in (1, 2, 7, 1000) for m in M2S])
        r = build_result(fs, S2, iscsd, pts, m2=m2.copy())
        if plotted:
            if fs not in (1.0, 1000.0):
                continue
            # a result that has been drawn with error bands first (drawing reads the deviations; it must not change them)
            import matplotlib
            matplotlib.use("Agg", force=False)
            import matplotlib.pyplot as plt
            for which in ((None, "coh", "csd") if iscsd else (None, "psd", "asd")):
                try:
                    plt.close(r.plot(which, errors=True, sigma=2)[0])
                except Exception:  # noqa: BLE001
                    plt.close("all")
        n = np.array([p[1] for p in pts], dtype=float)
        want_var = m2 / n
        got = {k: getattr(r, k) for k in ("XY_M2", "XY_emp_var", "XY_emp_dev", "Gxx_emp_dev", "Gxy_emp_dev")}
        out["evals"] += len(pts)
        out["nontrivial"] += int(np.count_nonzero(m2 > 0))
        g = got["Gxy_emp_dev"] if iscsd else got["Gxx_emp_dev"]
        other = got["Gxx_emp_dev"] if iscsd else got["Gxy_emp_dev"]
        prob = []
        if other is not None:
            prob.append("inapplicable deviation is not None")
        if g is None:
            prob.append("applicable deviation is None")
        else:
            if not np.allclose(got["XY_M2"], m2, rtol=1e-13, atol=0):
                prob.append("XY_M2")
            if not np.allclose(got["XY_emp_var"], want_var, rtol=1e-13, atol=0):
                prob.append("XY_emp_var")
            if not np.allclose(got["XY_emp_dev"], np.sqrt(want_var), rtol=1e-13, atol=0):
                prob.append("XY_emp_dev")
            if not np.allclose(g, np.sqrt(want_var) * 2 / (fs * S2), rtol=1e-12, atol=0):
                prob.append("G_emp_dev")
        if prob:
            out["failures"].append(fw.fail(f"constructed{'-after-plot' if plotted else ''}/{'csd' if iscsd else 'auto'}/{'+'.join(prob)}",
                                           f"constructed result{' (after plot calls with error bands)' if plotted else ''} fs={fs} S2={S2}: {prob}; got { {k: (None if v is None else np.asarray(v).tolist()) for k, v in got.items()} }",
                                           {"part": "constructed"}))
    out["samples"].append({"constructed grid": "M2 in {0,1e-300,1e-40,1e-9,2.5,1e40,1e300} x navg in {1,2,7,1000} x S2 x fs x auto|cross"})
    return out
