"""
C12 - the Kaiser window delivers the requested side-lobe suppression, measured
through the real pipeline (SpectrumAnalyzer.compute_single_bin).

Both analysis paths are exercised: compute_single_bin per offset, and compute() with a
user-supplied scheduler that puts every offset into one plan.
Single spectral line: channels cos and sin analysed as a pair with K=1, order -1:
|X_c + i X_s|^2 = XX + YY + 2 Im(XY)  (XY = X conj(Y)) is the response to
e^{+i w0 n}; demanded R(f0+d) <= 10^-((P-1)/10) R(f0) for every offset |d| >= m =
sqrt(1+alpha^2) bins on a quarter-bin grid up to the band edges.  Real sinusoid
(two lines): threshold P-7.5 dB where the image is also >= m bins away.
"""
import itertools

import numpy as np

from mc import ana, framework as fw
from mc.ref import windows as refwin

PROPERTY = "C12"
META = {
    "level": "model_checking",
    "rule": ("full product P x L x f0-position x phase x every analysis offset on a quarter-bin grid beyond the main lobe (both "
             "sides, up to DC and Nyquist); every offset is one evaluation; all are non-trivial (the response of a wrong window "
             "would exceed the threshold) and distinct"),
    "exhaustive": True,
    "bounds": {"quick": "P in {40,60,...,200}; L in 64..256 step 8 and odd {65,129,251} (+ L=1500 for P in {40,120,200}); f0 in {L/4+0.3, m+2, L/2-L/16} bins; phases {0.7,2}; offsets m..edge step 1/4 bin",
               "thorough": "L in 64..256 every integer + {512,1024,4096}"},
    "assumptions": ["float64 recurrence keeps > 200 dB of dynamic range for L <= 4096 (measured margin reported as min_margin_dB)",
                    "two-line threshold P-7.5 dB = P-1 dB per line + 6.02 dB coherent sum + peak perturbation"],
}
PS = tuple(range(40, 201, 20))


def shards(tier, seed):
    Ls = list(range(64, 257, 8)) + [65, 129, 251, 1500] if tier == "quick" else list(range(64, 257)) + [512, 1024, 4096]
    Ls.sort(reverse=True)
    packed, cur, w = [], [], 0
    for L in Ls:
        cur += [{"P": P, "L": L} for P in (PS if L <= 1024 or tier == "thorough" else (40, 120, 200))]   # ascending P for one L inside one process
        w += L
        if w >= 200:
            packed.append({"items": cur})
            cur, w = [], 0
    if cur:
        packed.append({"items": cur})
    # one very long segment (beyond 2^16): a structured set of analysis offsets instead of every quarter bin
    for P in (195, 200):
        packed.append({"items": [{"P": P, "L": 2 ** 18, "huge": True}]})
    return packed


def run_shard(shard):
    ana.quiet()
    out = {"evals": 0, "nontrivial": 0, "failures": [], "samples": [], "extra": {"min_margin_dB": 1e9, "min_margin_dB_real": 1e9}}
    seen = set()
    for it in shard["items"]:
        r = _huge(it["P"], it["L"]) if it.get("huge") else _one(it["P"], it["L"], it.get("only"))
        out["evals"] += r["evals"]
        out["nontrivial"] += r["evals"]
        out["extra"]["min_margin_dB"] = min(out["extra"]["min_margin_dB"], r["margin"])
        kP = f"min_margin_dB_P{it['P']}"
        out["extra"][kP] = min(out["extra"].get(kP, 1e9), r["margin"])
        out["extra"]["min_margin_dB_real"] = min(out["extra"]["min_margin_dB_real"], r["margin_real"])
        for f_ in r["failures"]:
            if f_["key"] not in seen:
                seen.add(f_["key"])
                out["failures"].append(f_)
        if not out["samples"]:
            out["samples"].append(r["sample"])
    return out


def replay(case):
    return run_shard({"items": [case]})["failures"]


def _huge(P, L):
    """L = 2^18: complex line at L/4+0.3 and at L/8+0.7 bins; analysis offsets: the first 20 bins beyond the main lobe in quarter
    bins, and +-6 bins around every power of two from 2^5 to 2^17, around multiples of 65536 and around L/3, L/5, L/7."""
    alpha = refwin.kaiser_alpha_ref(float(P))
    m = float(np.sqrt(1 + alpha * alpha))
    fs = 1.0
    n = np.arange(L)
    thr = 10 ** (-(P - 1) / 10.0)
    res = {"evals": 0, "failures": [], "margin": 1e9, "margin_real": 1e9, "sample": {"P": P, "L": L, "huge": True}}
    cent = [2.0 ** k for k in range(5, 18)] + [65536.0 * j for j in (1, 2, 3)] + [L / 3.0, L / 5.0, L / 7.0]
    offs = sorted({m + k / 4.0 for k in range(81)} | {c + d for c in cent for d in range(-6, 7) if c + d > m})
    for b0, phi in ((L / 4 + 0.3, 0.7), (L / 8 + 0.7, 2.0)):
        xc = np.cos(2 * np.pi * b0 * n / L + phi)
        xs = np.sin(2 * np.pi * b0 * n / L + phi)
        an2 = ana.make_analyzer(np.stack([xc, xs]), fs, win="kaiser", psll=float(P), order=-1, olap=0.0, backend="numba")

        def resp(b):
            r = an2.compute_single_bin(b * fs / L, L=L)
            return float(r.XX[0] + r.YY[0] + 2.0 * np.imag(r.XY[0]))

        R0 = resp(b0)
        for d, sgn in itertools.product(offs, (1, -1)):
            b = b0 + sgn * d
            if b < 0 or b > L / 2:
                continue
            ratio = resp(b) / R0 if R0 > 0 else np.inf
            res["evals"] += 1
            res["margin"] = min(res["margin"], 10 * np.log10(thr / max(ratio, 1e-300)))
            if not (ratio <= thr):
                key = f"line-huge/P={P}"
                if not res["failures"]:
                    res["failures"].append(fw.fail(key, f"{key}: L={L} f0={b0:.4f} bins: response at offset {sgn * d:+.2f} bins is {10 * np.log10(max(ratio, 1e-300)):.2f} dB, required <= -{P - 1} dB",
                                                   {"P": P, "L": L, "huge": True}))
    return res


def _one(P, L, only=None):
    alpha = refwin.kaiser_alpha_ref(float(P))
    m = float(np.sqrt(1 + alpha * alpha))
    fs = 1.0
    n = np.arange(L)
    thr = 10 ** (-(P - 1) / 10.0)
    thr_real = 10 ** (-(P - 7.5) / 10.0)
    res = {"evals": 0, "failures": [], "margin": 1e9, "margin_real": 1e9, "sample": None}
    f0s = [L / 4 + 0.3, m + 2.0, L / 2 - L / 16]
    for b0, phi in itertools.product(f0s, (0.7, 2.0)):
        if only and (abs(only[0] - b0) > 1e-9 or only[1] != phi):
            continue
        if not (m <= b0 <= L / 2 - m):
            continue
        xc = np.cos(2 * np.pi * b0 * n / L + phi)
        xs = np.sin(2 * np.pi * b0 * n / L + phi)
        an2 = ana.make_analyzer(np.stack([xc, xs]), fs, win="kaiser", psll=float(P), order=-1, olap=0.0, backend="numba")
        an1 = ana.make_analyzer(xc.copy(), fs, win="kaiser", psll=float(P), order=-1, olap=0.0, backend="numba")

        def resp(b):
            r = an2.compute_single_bin(b * fs / L, L=L)
            r = {"XX": r.XX, "YY": r.YY, "XY": r.XY}
            return float(r["XX"][0] + r["YY"][0] + 2.0 * np.imag(r["XY"][0]))

        def resp1(b):
            return float(an1.compute_single_bin(b * fs / L, L=L).XX[0])

        R0 = resp(b0)
        R0r = resp1(b0)
        # the same offsets through the full analysis path (compute() -> _lpsd_core): a user-supplied scheduler puts
        # every analysis offset into one plan with this L and a single segment
        offs_all = []
        d_ = m
        while b0 + d_ <= L / 2 or b0 - d_ >= 0:
            for sg in (1, -1):
                bb = b0 + sg * d_
                if 0 <= bb <= L / 2:
                    offs_all.append(bb)
            d_ += 0.25
        fb = np.array([b0] + sorted(offs_all)) * fs / L

        def plan_fn(**kw):
            nfp = fb.size
            return {"f": fb.copy(), "r": np.full(nfp, fs / L), "b": fb * L / fs, "L": np.full(nfp, L), "K": np.ones(nfp, dtype=int),
                    "navg": np.ones(nfp, dtype=int), "D": [np.zeros(1, dtype=int) for _ in range(nfp)], "O": np.zeros(nfp), "nf": nfp}

        full = ana.make_analyzer(np.stack([xc, xs]), fs, win="kaiser", psll=float(P), order=-1, olap=0.0, backend="numba",
                                 scheduler=plan_fn).compute()
        full = {"XX": np.asarray(full.XX), "YY": np.asarray(full.YY), "XY": np.asarray(full.XY)}
        Rf = full["XX"] + full["YY"] + 2.0 * np.imag(full["XY"])
        ib0 = int(np.argmin(np.abs(fb - b0 * fs / L)))
        ratios = np.delete(Rf, ib0) / Rf[ib0]
        res["evals"] += ratios.size
        worst = float(np.max(ratios))
        res["margin"] = min(res["margin"], 10 * np.log10(thr / max(worst, 1e-300)))
        if not (worst <= thr):
            jb = int(np.argmax(ratios))
            key = f"line-fullpath/P={P}"
            res["failures"].append(fw.fail(key, f"{key}: L={L} f0={b0:.4f} bins phi={phi}: full analysis path: response at {np.delete(fb, ib0)[jb] * L / fs - b0:+.2f} bins is {10 * np.log10(max(worst, 1e-300)):.2f} dB, required <= -{P - 1} dB", {"P": P, "L": L, "only": [b0, phi]}))
        offs = []
        d = m
        while b0 + d <= L / 2 or b0 - d >= 0:
            offs.append(d)
            d += 0.25
        for d, sgn in itertools.product(offs, (1, -1)):
            b = b0 + sgn * d
            if b < 0 or b > L / 2:
                continue
            R = resp(b)
            res["evals"] += 1
            ratio = R / R0 if R0 > 0 else np.inf
            marg = 10 * np.log10(thr / max(ratio, 1e-300))
            res["margin"] = min(res["margin"], marg)
            case = {"P": P, "L": L, "only": [b0, phi]}
            if not (ratio <= thr):
                key = f"line/P={P}"
                res["failures"].append(fw.fail(key, f"{key}: L={L} f0={b0:.4f} bins phi={phi}: response at offset {sgn * d:+.2f} bins is {10 * np.log10(max(ratio, 1e-300)):.2f} dB, required <= -{P - 1} dB", case))
                break
            # real sinusoid: images at -b0 and L-b0 must also be outside the main lobe
            if (b + b0) >= m and (L - b - b0) >= m:
                Rr = resp1(b)
                res["evals"] += 1
                ratio = Rr / R0r if R0r > 0 else np.inf
                res["margin_real"] = min(res["margin_real"], 10 * np.log10(thr_real / max(ratio, 1e-300)))
                if not (ratio <= thr_real):
                    key = f"real/P={P}"
                    res["failures"].append(fw.fail(key, f"{key}: L={L} f0={b0:.4f} bins phi={phi}: real sinusoid response at offset {sgn * d:+.2f} bins is {10 * np.log10(max(ratio, 1e-300)):.2f} dB, required <= -{P - 7.5} dB", case))
                    break
        if res["sample"] is None:
            res["sample"] = {"P": P, "L": L, "f0_bins": b0, "phi": phi, "m": m, "offsets": len(offs), "R0": R0}
    return res
