"""
C10 - analytic error bars are the Bendat-Piersol expressions.

E1 on directly constructed SpectrumResult objects over the full grid
coherence x n x |XX| x |YY| x arg(XY) x fs x S2, plus analyzer results (navg used
= number of segment starts).  The final sentence of the property (agreement with
the spread over independent Gaussian realisations) is an ensemble statement and
is not decided here (DESIGN.md section 6).
"""
import itertools

import numpy as np

from mc import ana, framework as fw
from mc.ref import bp

PROPERTY = "C10"
META = {
    "level": "model_checking",
    "rule": ("full grid g2 x n x XX x YY x arg(XY) x fs x S2 (one result bin per grid point) on constructed results, every error/"
             "deviation attribute compared with the reference expressions; plus analyzer results on a small lattice; every grid "
             "point is non-trivial (all reference values are non-zero except at g2=1) and distinct"),
    "exhaustive": True,
    "bounds": {"quick": "g2 in {1e-6,1e-3,.01,.1,.3,.5,.7,.9,.99,1-1e-9,1}; n in {1,2,3,5,10,100,1e4,1e6}; XX,YY in {1e-200,1e-6,1,1e6,1e200}; arg in {0,1,3,-2}; fs {1,1000}; S2 {.3,40}",
               "thorough": "same grid plus g2 on 41 log/linear points and n on 1..64"},
    "assumptions": ["the statistical clause (Gaussian data, spread over realisations) is not decided by enumeration and not claimed",
                    "coherence input of the reference expressions is the result's own coh (whose correctness is C09/C20)"],
}
G2 = (1e-6, 1e-3, 0.01, 0.1, 0.3, 0.5, 0.7, 0.9, 0.99, 1 - 1e-9, 1.0)
NN = (1, 2, 3, 5, 10, 100, 10 ** 4, 10 ** 6)


def shards(tier, seed):
    out = []
    g2 = list(G2)
    nn = list(NN)
    if tier == "thorough":
        g2 = sorted(set(g2) | set(np.round(np.linspace(0.025, 0.975, 39), 6).tolist()))
        nn = sorted(set(nn) | set(range(1, 65)))
    for fs, S2, iscsd in itertools.product((1.0, 1000.0), (0.3, 40.0), (True, False)):
        out.append({"part": "grid", "fs": fs, "S2": S2, "iscsd": iscsd, "g2": g2, "nn": nn})
    for iscsd in (True, False):
        out.append({"part": "grid", "fs": 1.0, "S2": 0.3, "iscsd": iscsd, "g2": list(G2)[::2], "nn": [1, 2, 7], "afterplot": True})
    for sch, mode, backend in itertools.product(("ltf", "vectorized_ltf", "lpsd", "new_ltf"), ("auto", "cross"), ("numba", "numpy")):
        out.append({"part": "ana", "sched": sch, "mode": mode, "backend": backend, "seed": seed})
    return out


def run_shard(shard):
    ana.quiet()
    return _grid(shard) if shard["part"] == "grid" else _ana(shard)


def replay(case):
    return run_shard(case)["failures"]


def build_result(fs, S2, iscsd, pts, m2=None):
    """pts: list of (g2, n, XX, YY, arg)."""
    from speckit.analysis import SpectrumResult

    m = len(pts)
    g2 = np.array([p[0] for p in pts])
    n = np.array([p[1] for p in pts], dtype=np.int64)
    XX = np.array([p[2] for p in pts])
    YY = np.array([p[3] for p in pts]) if iscsd else XX.copy()
    arg = np.array([p[4] for p in pts])
    XY = np.sqrt(g2) * np.sqrt(XX) * np.sqrt(YY) * np.exp(1j * arg) if iscsd else XX.astype(complex)
    d = {"f": np.arange(1, m + 1, dtype=float), "r": np.ones(m), "b": np.arange(1, m + 1, dtype=float),
         "L": np.full(m, 16, dtype=np.int64), "K": n.copy(), "navg": n.copy(), "D": [np.arange(1)] * m,
         "O": np.zeros(m), "XX": XX, "YY": YY, "XY": XY, "S12": np.full(m, 9.0), "S2": np.full(m, S2),
         "M2": np.zeros(m) if m2 is None else np.asarray(m2, dtype=float), "compute_t": np.zeros(m)}
    return SpectrumResult(d, {}, iscsd, fs)


EPS = float(np.finfo(np.float64).eps)


def _grid(shard):
    fs, S2, iscsd = shard["fs"], shard["S2"], shard["iscsd"]
    mags = (1e-200, 1e-6, 1.0, 1e6, 1e200)
    pts = list(itertools.product(shard["g2"], shard["nn"], mags, mags if iscsd else (1.0,), (0.0, 1.0, 3.0, -2.0) if iscsd else (0.0,)))
    if shard.get("only") is not None:
        pts = [tuple(shard["only"])]
    r = build_result(fs, S2, iscsd, pts)
    out = {"evals": 0, "nontrivial": 0, "failures": [], "samples": [], "extra": {}}
    if shard.get("afterplot"):
        # the same statements for a result that has been drawn with 3-sigma error bands first (drawing reads the deviations)
        import matplotlib
        matplotlib.use("Agg", force=False)
        import matplotlib.pyplot as plt
        for which in ((None, "coh", "csd", "cf") if iscsd else (None, "psd", "asd")):
            try:
                fig_ax = r.plot(which, errors=True, sigma=3)
                plt.close(fig_ax[0])
            except Exception:  # noqa: BLE001  (whether this plot is possible is not the subject)
                plt.close("all")
        out["extra"]["results_plotted_first"] = 1
    n = np.array([p[1] for p in pts], dtype=float)
    seen = set()

    def add(tag, j, msg):
        key = ("afterplot/" if shard.get("afterplot") else "") + f"grid/{'csd' if iscsd else 'auto'}/{tag}"
        if key not in seen:
            seen.add(key)
            out["failures"].append(fw.fail(key, f"{key}: point (g2,n,XX,YY,arg)={pts[j]} fs={fs} S2={S2}: {msg}",
                                           dict(shard, only=list(pts[j]))))

    def close(name, got, want, rel=1e-12, atol=1e-300):
        if got is None:
            add(name + "/none", 0, "attribute is None")
            return
        got = np.asarray(got, dtype=float)
        bad = np.nonzero(~(np.abs(got - want) <= rel * np.abs(want) + atol))[0]
        if bad.size:
            j = int(bad[0])
            add(name, j, f"{name}={got[j]!r} expected {want[j]!r}")

    Gxx = np.asarray(r.Gxx)
    close("Gxx_error", r.Gxx_error, bp.gxx_error(n))
    close("Gxx_dev", r.Gxx_dev, bp.gxx_dev(Gxx, n))
    close("Gyy_error", r.Gyy_error, bp.gxx_error(n))
    close("Gyy_dev", r.Gyy_dev, bp.gxx_dev(np.asarray(r.Gyy), n))
    close("Gxx_dev=Gxx*err", np.asarray(r.Gxx_dev), Gxx * np.asarray(r.Gxx_error))
    if iscsd:
        g2 = np.asarray(r.coh, dtype=float)
        g2in = np.array([p[0] for p in pts])
        if not np.all(np.abs(g2 - g2in) <= 1e-12):
            add("coh-input", int(np.argmax(np.abs(g2 - g2in))), "constructed coherence not reproduced by result.coh")
        H = np.asarray(r.Hxy)
        Gxy = np.asarray(r.Gxy)
        close("Gxy_error", r.Gxy_error, bp.gxy_error(g2, n))
        close("Gxy_dev", r.Gxy_dev, bp.gxy_dev(Gxy, g2, n))
        # a coherence that is 1 to within a few ulp makes (1-g2) a rounding residue: its sign and whether it is clamped to zero are
        # not pinned by the property, so at those points the expressions are demanded only to the size of that residue
        resid = np.where(np.abs(1.0 - g2) <= 8 * EPS, 8 * EPS, 0.0)
        close("Hxy_mag_error", r.Hxy_mag_error, bp.h_mag_error(g2, n), atol=np.sqrt(resid) / np.sqrt(2.0 * g2 * n) + 1e-300)
        close("Hxy_dev", r.Hxy_dev, bp.h_dev(H, g2, n), atol=np.abs(H) * np.sqrt(resid) / np.sqrt(2.0 * g2 * n) + 1e-300)
        close("coh_error", r.coh_error, bp.coh_error(g2, n), atol=2 * np.sqrt(2.0) * resid / np.sqrt(g2 * n) + 1e-300)
        close("coh_dev", r.coh_dev, bp.coh_dev(g2, n), atol=2 * np.sqrt(2.0 * g2) * resid / np.sqrt(n) + 1e-300)
        # deviation = estimate x normalised error
        close("Gxy_dev=|Gxy|*err", np.asarray(r.Gxy_dev), np.abs(Gxy) * np.asarray(r.Gxy_error), 1e-11)
        close("Hxy_dev=|H|*err", np.asarray(r.Hxy_dev), np.abs(H) * np.asarray(r.Hxy_mag_error), 1e-11)
        # coherence is dimensionless O(1): a result that is 1 +- 1ulp makes (1-g2) a rounding residue of either sign
        close("coh_dev=coh*err", np.asarray(r.coh_dev), np.abs(g2 * np.asarray(r.coh_error)), 1e-11, atol=1e-14)
        # phase error: mag_err <= rad_err <= pi/2 mag_err, -> mag_err as g2 -> 1, deg = rad*180/pi
        rad = np.asarray(r.Hxy_rad_error, dtype=float)
        mag = np.asarray(r.Hxy_mag_error, dtype=float)
        deg = np.asarray(r.Hxy_deg_error, dtype=float)
        bad = np.nonzero(~((rad >= mag * (1 - 1e-12)) & (rad <= (np.pi / 2) * mag * (1 + 1e-12))))[0]
        if bad.size:
            j = int(bad[0])
            add("rad-bounds", j, f"Hxy_rad_error={rad[j]!r} not within [mag_err, pi/2 mag_err] = [{mag[j]!r},{np.pi / 2 * mag[j]!r}]")
        near1 = (g2 >= 1 - 1e-8) & (mag > 0)
        bad = np.nonzero(near1 & ~(rad <= mag * (1 + 1e-3)))[0]
        if bad.size:
            j = int(bad[0])
            add("rad-limit", j, f"g2={g2[j]!r}: rad_err/mag_err={rad[j] / mag[j]!r} not -> 1")
        close("deg=rad*180/pi", deg, rad * 180.0 / np.pi)
    else:
        for nm in ("Gxy_error", "Gxy_dev", "Hxy_mag_error", "Hxy_rad_error", "Hxy_deg_error", "Hxy_dev", "coh_error", "coh_dev"):
            if getattr(r, nm) is not None:
                add(nm + "/not-none", 0, f"{nm} should be None for an auto-spectrum")
    # dev * sqrt(n) constant in n: compare points that differ in n only
    names = ["Gxx_dev", "Gyy_dev"] + (["Gxy_dev", "Hxy_dev", "coh_dev"] if iscsd else [])
    groups = {}
    for j, p in enumerate(pts):
        groups.setdefault((p[0], p[2], p[3], p[4]), []).append(j)
    for nm in names:
        v = np.asarray(getattr(r, nm), dtype=float) * np.sqrt(n)
        for js in groups.values():
            vv = v[js]
            if not np.all(np.abs(vv - vv[0]) <= 1e-11 * np.abs(vv[0]) + 1e-300):
                add(nm + "*sqrt(n)", js[int(np.argmax(np.abs(vv - vv[0])))], f"{nm}*sqrt(n) not constant in n: {vv.tolist()}")
                break
    out["evals"] = len(pts) * (16 if iscsd else 5)
    out["nontrivial"] = len(pts)
    out["samples"].append({"point (g2,n,XX,YY,arg)": list(pts[len(pts) // 2]), "fs": fs, "S2": S2, "iscsd": iscsd,
                           "Gxx_dev": float(np.asarray(r.Gxx_dev)[len(pts) // 2])})
    return out


def _ana(shard):
    from mc import records
    out = {"evals": 0, "nontrivial": 0, "failures": [], "samples": [], "extra": {}}
    N, fs = 96, 3.0
    x, y = ana.data_for(shard["mode"], N, "id1", "id2", shard["seed"])
    for olap, order in itertools.product((0.0, 0.5, 0.75, 0.95), (-1, 0, 2)):
        an = ana.make_analyzer(ana.as_input(x, y), fs, olap=olap, order=order, Jdes=12, Kdes=5, scheduler=shard["sched"],
                               backend=shard["backend"], win="hann")
        r = an.compute()
        pf = ana.plan_fields(r)
        nD = np.array([len(d) for d in pf["D"]], dtype=float)
        results = [(r, nD, "full")]
        for j in (0, len(nD) // 2, len(nD) - 1):
            sb = an.compute_single_bin(float(pf["f"][j]), L=int(pf["L"][j]))
            results.append((sb, np.array([len(sb.D[0])], dtype=float), f"single[{j}]"))
        for Ls in (2, 3, 10, N):  # short segments: more requested averages than start positions at high overlap
            sb = an.compute_single_bin(0.4, L=Ls)
            results.append((sb, np.array([len(sb.D[0])], dtype=float), f"single[L={Ls}]"))
        for rr, nd, tag in results:
            out["evals"] += len(nd)
            out["nontrivial"] += int(np.count_nonzero(nd > 1))
            want = np.asarray(rr.Gxx) / np.sqrt(nd)
            got = np.asarray(rr.Gxx_dev)
            if not np.all(np.abs(got - want) <= 1e-12 * np.abs(want) + 1e-300):
                j = int(np.argmax(np.abs(got - want)))
                out["failures"].append(fw.fail(f"ana/navg/{shard['sched']}/{shard['mode']}",
                                               f"{tag}: Gxx_dev[{j}]={got[j]!r} but Gxx/sqrt(number of starts={nd[j]:.0f})={want[j]!r} (olap={olap}, order={order})",
                                               dict(shard)))
                break
            if shard["mode"] == "cross":
                g2 = np.asarray(rr.coh)
                ok = g2 > 0
                want = bp.coh_dev(g2[ok], nd[ok])
                got = np.asarray(rr.coh_dev)[ok]
                if not np.all(np.abs(got - want) <= 1e-12 * np.abs(want) + 1e-300):
                    out["failures"].append(fw.fail(f"ana/coh_dev/{shard['sched']}", f"{tag}: coh_dev does not use the number of starts", dict(shard)))
                    break
    out["samples"].append({"analyzer": {k: shard[k] for k in ("sched", "mode", "backend")}, "N": N})
    return out
